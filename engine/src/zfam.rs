//! Enumeration of (stream, wrapper, mutation, windowBits argument) for the decoder-side checks.

use crate::engine::{hex, Ctx};
use crate::refs::inflate_ref::{inflate_raw, RefOpts};
use crate::zgen::*;

pub struct SItem<'a> {
    pub gen: &'a Gen,
    pub kind: WrapKind,
    pub variant: usize,
    pub mutation: &'a Mutation,
    pub wb: i32,
    pub bytes: &'a [u8],
    /// true when this is an unmutated stream that is valid by construction
    pub intact_valid: bool,
    /// index of the mutation within its stream (0 = intact)
    pub mut_idx: usize,
}

impl SItem<'_> {
    pub fn desc(&self) -> String {
        format!("stream[{}] wrapper={:?}#{} mutation={} windowBits={} bytes={}", self.gen.name, self.kind, self.variant, self.mutation.desc(), self.wb, if self.bytes.len() <= 80 { hex(self.bytes) } else { format!("({} bytes) {}..", self.bytes.len(), hex(&self.bytes[..24])) })
    }
}

pub struct Corpus {
    pub gens: Vec<Gen>,
}

pub fn corpus(quick: bool) -> Corpus {
    Corpus { gens: base_raw(quick) }
}

pub fn mutations_for(len: usize, quick: bool, header_len: usize) -> Vec<Mutation> {
    let mut v = vec![Mutation::None, Mutation::Append(vec![0]), Mutation::Append(vec![0xff, 0x1f]), Mutation::Append(vec![0x78, 0x9c, 0x03])];
    if len <= 300 {
        for n in 0..len {
            v.push(Mutation::Truncate(n));
        }
        for b in 0..len * 8 {
            v.push(Mutation::BitFlip(b));
        }
        if !quick {
            for i in 0..len {
                for x in [0x00u8, 0xff] {
                    v.push(Mutation::ByteSub(i, x));
                }
            }
        }
    } else {
        // long streams: header, first bytes of the body, last 12 bytes, and a sparse lattice in between
        let mut bits: Vec<usize> = (0..((header_len + 8) * 8).min(len * 8)).collect();
        bits.extend((len - 12) * 8..len * 8);
        let stride = if quick { 4099 } else { 331 };
        bits.extend(((header_len + 8) * 8..(len - 12) * 8).step_by(stride));
        bits.sort();
        bits.dedup();
        for b in bits {
            v.push(Mutation::BitFlip(b));
        }
        for n in [0, 1, header_len, header_len + 1, len / 2, len - 9, len - 8, len - 5, len - 4, len - 1] {
            if n < len {
                v.push(Mutation::Truncate(n));
            }
        }
    }
    v
}

/// Enumerate the corpus. `all_wb`: every windowBits argument selecting the wrapper, else only the canonical one.
pub fn for_each<F: FnMut(&mut Ctx, &SItem)>(ctx: &mut Ctx, corp: &Corpus, quick: bool, all_wb: bool, mut f: F) {
    for g in &corp.gens {
        // meaning of the raw stream: by construction, else whatever the reference decodes before the fault
        let data: Vec<u8> = match &g.expected {
            Some(d) => d.clone(),
            None => inflate_raw(&g.raw, &RefOpts::zlib()).out().clone(),
        };
        let kinds: Vec<(WrapKind, usize)> = if g.light {
            vec![(WrapKind::Raw, 0), (WrapKind::Zlib, 0)]
        } else if g.raw.len() > 300 {
            vec![(WrapKind::Raw, 0), (WrapKind::Zlib, 0), (WrapKind::Gzip, 1)]
        } else if quick {
            vec![(WrapKind::Raw, 0), (WrapKind::Zlib, 0), (WrapKind::Zlib, 1), (WrapKind::Gzip, 0), (WrapKind::Gzip, 2)]
        } else {
            vec![(WrapKind::Raw, 0), (WrapKind::Zlib, 0), (WrapKind::Zlib, 1), (WrapKind::Zlib, 2), (WrapKind::Gzip, 0), (WrapKind::Gzip, 1), (WrapKind::Gzip, 2), (WrapKind::Gzip, 3)]
        };
        for (kind, variant) in kinds {
            let wrapped = wrap_stream(&g.raw, &data, kind, variant);
            let header_len = match kind {
                WrapKind::Raw => 0,
                WrapKind::Zlib => 2,
                WrapKind::Gzip => wrapped.len() - g.raw.len() - 8,
            };
            let muts = if g.light { vec![Mutation::None, Mutation::Append(vec![0]), Mutation::Truncate(wrapped.len() - 1), Mutation::Truncate(wrapped.len() / 2)] } else { mutations_for(wrapped.len(), quick, header_len) };
            let wbs = if all_wb { wb_args(kind, !quick) } else { vec![wb_args(kind, false)[0]] };
            for (mi, m) in muts.iter().enumerate() {
                let bytes = m.apply(&wrapped);
                for &wb in &wbs {
                    // non-canonical windowBits arguments only on intact streams and a mutation lattice
                    if wb != wbs[0] && mi % 7 != 0 {
                        continue;
                    }
                    f(ctx, &SItem { gen: g, kind, variant, mutation: m, wb, bytes: &bytes, intact_valid: mi == 0 && g.expected.is_some(), mut_idx: mi });
                }
            }
        }
    }
}

/// all byte strings of length <= n, as a family of its own
pub fn short_strings(n: usize) -> impl Iterator<Item = Vec<u8>> {
    let one = (0..=255u8).map(|a| vec![a]);
    let two = (0..=255u8).flat_map(|a| (0..=255u8).map(move |b| vec![a, b]));
    let base: Box<dyn Iterator<Item = Vec<u8>>> = Box::new(std::iter::once(vec![]).chain(one).chain(two));
    if n >= 3 {
        Box::new(base.chain((0..=255u8).flat_map(|a| (0..=255u8).flat_map(move |b| (0..=255u8).map(move |c| vec![a, b, c]))))) as Box<dyn Iterator<Item = Vec<u8>>>
    } else {
        base
    }
}
