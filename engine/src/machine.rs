//! Step machines: a live stream plus a cursor into its data source, advanced one API call at a time.
//! Used where histories branch (copy at a call boundary, reset, thread interleavings, faults).

use crate::api::*;
use crate::drv::AMPLE;
use crate::engine::hash_bytes;
use crate::mem::Arena;

#[derive(Clone, Copy, Debug, PartialEq, Eq)]
pub enum MOp {
    /// deflate / inflate with `inn` new input bytes (usize::MAX: everything that is left, capped at 400 for deflate)
    Call { flush: i32, inn: usize, room: usize },
    Params(i32, i32),
    Tune(i32, i32, i32, i32),
    SetDict(usize),
    Pending,
    GetDict,
    Prime(i32, i32),
    Sync,
    Validate(i32),
}

impl MOp {
    pub fn tag(&self) -> String {
        match self {
            MOp::Call { flush, inn, room } => format!("call(f={flush},in={},room={})", if *inn == usize::MAX { "rest".into() } else { inn.to_string() }, if *room == AMPLE { "ample".into() } else { room.to_string() }),
            other => format!("{other:?}").to_lowercase(),
        }
    }
}

#[derive(Clone, Debug, PartialEq, Eq)]
pub struct MObs {
    pub ret: i32,
    pub din: u32,
    pub dout: u32,
    pub out_hash: u64,
    pub total_in: u64,
    pub total_out: u64,
    pub adler: u64,
    pub aux: u64,
}

pub struct MEnv {
    pub ain: Arena,
    pub aout: Arena,
    pub aux: Arena,
    pub dict: Vec<u8>,
}

impl MEnv {
    pub fn new() -> MEnv {
        MEnv { ain: Arena::new(1 << 18), aout: Arena::new(1 << 18), aux: Arena::new(1 << 17), dict: crate::inputs::text(33, 70000) }
    }
}

/// a compression stream with its input cursor
pub struct DMachine<'a> {
    pub s: Strm,
    pub data: &'a [u8],
    pub pos: usize,
    pub given: usize,
    pub live: bool,
    pub out: Vec<u8>,
}

impl<'a> DMachine<'a> {
    pub unsafe fn init<Zx: Z>(level: i32, wb: i32, ml: i32, st: i32, data: &'a [u8], s: Strm) -> Result<DMachine<'a>, i32> {
        let mut m = DMachine { s, data, pos: 0, given: 0, live: false, out: vec![] };
        let r = Zx::deflateInit2_(m.s.p(), level, 8, wb, ml, st, Zx::zlibVersion(), STREAM_SIZE);
        if r != Z_OK {
            return Err(r);
        }
        m.live = true;
        Ok(m)
    }
    /// duplicate with deflateCopy; the copy shares the data source and cursor values
    pub unsafe fn copy<Zx: Z>(&mut self, dest: Strm) -> Result<DMachine<'a>, i32> {
        let mut d = DMachine { s: dest, data: self.data, pos: self.pos, given: self.given, live: false, out: self.out.clone() };
        let r = Zx::deflateCopy(d.s.p(), self.s.p());
        if r != Z_OK {
            return Err(r);
        }
        d.live = true;
        Ok(d)
    }
    pub unsafe fn step<Zx: Z>(&mut self, op: MOp, env: &MEnv) -> MObs {
        let mut o = MObs { ret: 0, din: 0, dout: 0, out_hash: 0, total_in: 0, total_out: 0, adler: 0, aux: 0 };
        match op {
            MOp::Call { flush, inn, room } => {
                let add = if inn == usize::MAX { (self.data.len() - self.given).min(400) } else { inn.min(self.data.len() - self.given) };
                self.given += add;
                let room_n = if room == AMPLE { 16384 } else { room };
                let chunk = &self.data[self.pos..self.given];
                let pin = env.ain.put(chunk, true);
                let pout = env.aout.at_end(room_n);
                self.s.z.next_in = pin;
                self.s.z.avail_in = chunk.len() as u32;
                self.s.z.next_out = pout;
                self.s.z.avail_out = room_n as u32;
                o.ret = Zx::deflate(self.s.p(), flush);
                let din = chunk.len() - self.s.z.avail_in as usize;
                let dout = room_n - self.s.z.avail_out as usize;
                let bytes = std::slice::from_raw_parts(pout, dout.min(room_n));
                o.din = din as u32;
                o.dout = dout as u32;
                o.out_hash = hash_bytes(bytes);
                self.out.extend_from_slice(bytes);
                self.pos += din.min(chunk.len());
            }
            MOp::Params(l, st) => {
                let room_n = 16384;
                let chunk = &self.data[self.pos..self.given];
                let pin = env.ain.put(chunk, true);
                let pout = env.aout.at_end(room_n);
                self.s.z.next_in = pin;
                self.s.z.avail_in = chunk.len() as u32;
                self.s.z.next_out = pout;
                self.s.z.avail_out = room_n as u32;
                o.ret = Zx::deflateParams(self.s.p(), l, st);
                let din = chunk.len() - self.s.z.avail_in as usize;
                let dout = room_n - self.s.z.avail_out as usize;
                let bytes = std::slice::from_raw_parts(pout, dout.min(room_n));
                o.din = din as u32;
                o.dout = dout as u32;
                o.out_hash = hash_bytes(bytes);
                self.out.extend_from_slice(bytes);
                self.pos += din.min(chunk.len());
            }
            MOp::Tune(a, b, c, d) => o.ret = Zx::deflateTune(self.s.p(), a, b, c, d),
            MOp::SetDict(n) => {
                let p = env.aux.put(&env.dict[..n], true);
                o.ret = Zx::deflateSetDictionary(self.s.p(), p, n as u32);
            }
            MOp::Pending => {
                let mut pend: u32 = 0;
                let mut bits: i32 = 0;
                o.ret = Zx::deflatePending(self.s.p(), &mut pend, &mut bits);
                o.aux = (pend as u64) << 8 | bits as u64;
            }
            MOp::GetDict => {
                let buf = env.aux.at_end(32768 + 300);
                let mut len: u32 = 0;
                o.ret = Zx::deflateGetDictionary(self.s.p(), buf, &mut len);
                o.aux = hash_bytes(std::slice::from_raw_parts(buf, (len as usize).min(32768)));
            }
            MOp::Prime(b, v) => o.ret = Zx::deflatePrime(self.s.p(), b, v),
            MOp::Sync | MOp::Validate(_) => o.ret = 77,
        }
        o.total_in = self.s.z.total_in as u64;
        o.total_out = self.s.z.total_out as u64;
        o.adler = self.s.z.adler as u64;
        o
    }
    pub unsafe fn end<Zx: Z>(&mut self) -> i32 {
        self.live = false;
        Zx::deflateEnd(self.s.p())
    }
    pub unsafe fn reset<Zx: Z>(&mut self) -> i32 {
        let r = Zx::deflateReset(self.s.p());
        if r == Z_OK {
            self.out.clear();
        }
        r
    }
}

/// a decompression stream with its input cursor
pub struct IMachine<'a> {
    pub s: Strm,
    pub data: &'a [u8],
    pub pos: usize,
    pub live: bool,
    pub out: Vec<u8>,
}

impl<'a> IMachine<'a> {
    pub unsafe fn init<Zx: Z>(wb: i32, data: &'a [u8], s: Strm) -> Result<IMachine<'a>, i32> {
        let mut m = IMachine { s, data, pos: 0, live: false, out: vec![] };
        let r = Zx::inflateInit2_(m.s.p(), wb, Zx::zlibVersion(), STREAM_SIZE);
        if r != Z_OK {
            return Err(r);
        }
        m.live = true;
        Ok(m)
    }
    pub unsafe fn copy<Zx: Z>(&mut self, dest: Strm) -> Result<IMachine<'a>, i32> {
        let mut d = IMachine { s: dest, data: self.data, pos: self.pos, live: false, out: self.out.clone() };
        let r = Zx::inflateCopy(d.s.p(), self.s.p());
        if r != Z_OK {
            return Err(r);
        }
        d.live = true;
        Ok(d)
    }
    pub unsafe fn step<Zx: Z>(&mut self, op: MOp, env: &MEnv) -> MObs {
        let mut o = MObs { ret: 0, din: 0, dout: 0, out_hash: 0, total_in: 0, total_out: 0, adler: 0, aux: 0 };
        match op {
            MOp::Call { flush, inn, room } => {
                let take = if inn == usize::MAX { self.data.len() - self.pos } else { inn.min(self.data.len() - self.pos) };
                let room_n = if room == AMPLE { 70000 } else { room };
                let chunk = &self.data[self.pos..self.pos + take];
                let pin = env.ain.put(chunk, true);
                let pout = env.aout.at_end(room_n);
                self.s.z.next_in = pin;
                self.s.z.avail_in = take as u32;
                self.s.z.next_out = pout;
                self.s.z.avail_out = room_n as u32;
                o.ret = Zx::inflate(self.s.p(), flush);
                let din = take - (self.s.z.avail_in as usize).min(take);
                let dout = room_n - (self.s.z.avail_out as usize).min(room_n);
                let bytes = std::slice::from_raw_parts(pout, dout);
                o.din = din as u32;
                o.dout = dout as u32;
                o.out_hash = hash_bytes(bytes);
                self.out.extend_from_slice(bytes);
                self.pos += din;
                o.aux = self.s.z.data_type as u64;
            }
            MOp::SetDict(n) => {
                let p = env.aux.put(&env.dict[..n], true);
                o.ret = Zx::inflateSetDictionary(self.s.p(), p, n as u32);
            }
            MOp::GetDict => {
                let buf = env.aux.at_end(32768 + 300);
                let mut len: u32 = 0;
                o.ret = Zx::inflateGetDictionary(self.s.p(), buf, &mut len);
                o.aux = hash_bytes(std::slice::from_raw_parts(buf, (len as usize).min(32768)));
            }
            MOp::Prime(b, v) => o.ret = Zx::inflatePrime(self.s.p(), b, v),
            MOp::Sync => {
                let take = (self.data.len() - self.pos).min(64);
                let chunk = &self.data[self.pos..self.pos + take];
                let pin = env.ain.put(chunk, true);
                self.s.z.next_in = pin;
                self.s.z.avail_in = take as u32;
                o.ret = Zx::inflateSync(self.s.p());
                let din = take - (self.s.z.avail_in as usize).min(take);
                o.din = din as u32;
                self.pos += din;
            }
            MOp::Validate(c) => o.ret = Zx::inflateValidate(self.s.p(), c),
            MOp::Params(..) | MOp::Tune(..) | MOp::Pending => o.ret = 77,
        }
        o.total_in = self.s.z.total_in as u64;
        o.total_out = self.s.z.total_out as u64;
        o.adler = self.s.z.adler as u64;
        o
    }
    pub unsafe fn end<Zx: Z>(&mut self) -> i32 {
        self.live = false;
        Zx::inflateEnd(self.s.p())
    }
    pub unsafe fn reset<Zx: Z>(&mut self, wb: Option<i32>) -> i32 {
        let r = match wb {
            Some(w) => Zx::inflateReset2(self.s.p(), w),
            None => Zx::inflateReset(self.s.p()),
        };
        if r == Z_OK {
            self.pos = 0;
            self.out.clear();
        }
        r
    }
}
