//! E1: stateless bounded-exhaustive explorer. A check is a function that enumerates *cases* in a
//! fixed canonical order and hands each to `Ctx::case`. The parent process shards the case index
//! space over worker subprocesses (stride sharding); each worker publishes the index of the case it
//! is executing in a shared-memory slot before running it, so a signal is attributed to one case.

use serde_json::{json, Value};
use std::collections::{BTreeMap, HashSet};
use std::io::Write;
use std::panic::{catch_unwind, AssertUnwindSafe};
use std::path::{Path, PathBuf};
use std::time::{Duration, Instant};

pub const VERIF_ROOT: &str = "/verif";
/// Where known_findings.json is read and evidence/replays are written: /verif, unless a scratch trial
/// (tools/try_seed_iso.sh) redirects it so that trials of seeded changes never touch the registered evidence.
pub fn root() -> String {
    std::env::var("ZVERIF_ROOT").ok().filter(|s| !s.is_empty()).unwrap_or_else(|| VERIF_ROOT.to_string())
}
const SET_CAP: usize = 3_000_000;
const MAX_VIOLATIONS_PER_WORKER: usize = 8;
const MAX_CRASH_RESTARTS: usize = 24;
const CASE_WATCHDOG: Duration = Duration::from_secs(120);

#[derive(Clone, Copy, PartialEq, Eq, Debug)]
pub enum Tier {
    Quick,
    Thorough,
}

impl Tier {
    pub fn name(self) -> &'static str {
        match self {
            Tier::Quick => "quick",
            Tier::Thorough => "thorough",
        }
    }
}

#[derive(Clone, Debug)]
pub enum Mode {
    /// run cases with idx >= start and idx % nshards == shard
    Worker { shard: u64, nshards: u64, start: u64 },
    /// run exactly one case (replay), verbosely
    Single { idx: u64 },
    /// do not run anything, only find the description of case idx
    Describe { idx: u64 },
    /// count cases only
    Count,
    /// do not run anything, print index and description of the cases whose description contains the pattern (at most `max`)
    Find { pat: &'static str, max: usize },
    /// development aid: run exactly these cases, in order of enumeration, in one process
    Multi { set: &'static [u64] },
}

#[derive(Clone, Debug)]
pub struct Violation {
    pub family: String,
    pub idx: u64,
    pub desc: String,
    pub msg: String,
}

#[derive(Default)]
pub struct Stats {
    pub cases: u64,
    pub execs: u64,
    pub validated: u64,
    pub nontrivial: u64,
    pub outcomes: HashSet<u64>,
    pub states: HashSet<u64>,
    pub transitions: HashSet<u64>,
    pub samples: Vec<String>,
    pub families: BTreeMap<String, u64>,
    pub counters: BTreeMap<String, u64>,
    pub notes: BTreeMap<String, Vec<String>>,
    pub saturated: bool,
}

/// Per-case recorder handed to the case body.
pub struct Case<'a> {
    st: &'a mut Stats,
    record: bool,
    pub verbose: bool,
    /// violations that do not abort the case (the remaining obligations are still checked)
    pub soft: Vec<String>,
}

impl Case<'_> {
    /// one execution of the code under test (an API-call history run to completion)
    #[inline]
    pub fn exec(&mut self) {
        if self.record {
            self.st.execs += 1;
        }
    }
    /// one execution in which a reference model's prediction was compared step by step with the implementation
    #[inline]
    pub fn validated(&mut self) {
        if self.record {
            self.st.validated += 1;
        }
    }
    #[inline]
    pub fn nontrivial(&mut self) {
        if self.record {
            self.st.nontrivial += 1;
        }
    }
    #[inline]
    pub fn outcome(&mut self, h: u64) {
        if self.record && self.st.outcomes.len() < SET_CAP {
            self.st.outcomes.insert(h);
        } else if self.record {
            self.st.saturated = true;
        }
    }
    #[inline]
    pub fn state(&mut self, h: u64) {
        if self.record && self.st.states.len() < SET_CAP {
            self.st.states.insert(h);
        } else if self.record {
            self.st.saturated = true;
        }
    }
    #[inline]
    pub fn trans(&mut self, from: u64, to: u64) {
        if self.record && self.st.transitions.len() < SET_CAP {
            self.st.transitions.insert(mix(from, to));
        } else if self.record {
            self.st.saturated = true;
        }
    }
    #[inline]
    pub fn count(&mut self, key: &str, n: u64) {
        if self.record {
            match self.st.counters.get_mut(key) {
                Some(v) => *v += n,
                None => {
                    self.st.counters.insert(key.to_string(), n);
                }
            }
        }
    }
    /// record a violated obligation but keep checking the rest of this case
    pub fn soft_violation(&mut self, msg: String) {
        if self.soft.len() < 4 {
            self.soft.push(msg);
        }
    }
    /// keep up to 4 example texts per key in the evidence
    pub fn note(&mut self, key: &str, text: String) {
        if self.record {
            let v = self.st.notes.entry(key.to_string()).or_default();
            if v.len() < 4 {
                v.push(text);
            }
        }
    }
    pub fn log(&self, s: &str) {
        if self.verbose {
            println!("    {s}");
        }
    }
}

#[inline]
pub fn mix(a: u64, b: u64) -> u64 {
    let mut x = a ^ b.rotate_left(29) ^ 0x9E37_79B9_7F4A_7C15;
    x = (x ^ (x >> 30)).wrapping_mul(0xBF58_476D_1CE4_E5B9);
    x = (x ^ (x >> 27)).wrapping_mul(0x94D0_49BB_1331_11EB);
    x ^ (x >> 31)
}

pub fn hash_bytes(b: &[u8]) -> u64 {
    let mut h: u64 = 0xcbf2_9ce4_8422_2325;
    for chunk in b.chunks(8) {
        let mut w = [0u8; 8];
        w[..chunk.len()].copy_from_slice(chunk);
        h = mix(h, u64::from_le_bytes(w) ^ (chunk.len() as u64) << 56);
    }
    mix(h, b.len() as u64)
}

pub fn hash_u32s(v: &[u32]) -> u64 {
    let mut h: u64 = 0x1234_5678_9abc_def1;
    for &x in v {
        h = mix(h, x as u64);
    }
    h
}

pub struct Ctx {
    pub prop: &'static str,
    pub tier: Tier,
    pub seed: u64,
    pub mode: Mode,
    idx: u64,
    pub stats: Stats,
    pub violations: Vec<Violation>,
    pub described: Option<(String, String)>,
    slot: *mut u64,
    stop: bool,
    known: Vec<Known>,
    new_violations: usize,
}

impl Ctx {
    pub fn new(prop: &'static str, tier: Tier, mode: Mode, slot: *mut u64) -> Self {
        let seed = std::env::var("VERIF_SEED").ok().and_then(|s| s.parse().ok()).unwrap_or(0);
        Ctx {
            prop,
            tier,
            seed,
            mode,
            idx: 0,
            stats: Stats::default(),
            violations: vec![],
            described: None,
            slot,
            stop: false,
            known: load_known(),
            new_violations: 0,
        }
    }
    pub fn quick(&self) -> bool {
        self.tier == Tier::Quick
    }
    pub fn thorough(&self) -> bool {
        self.tier == Tier::Thorough
    }
    pub fn total_cases(&self) -> u64 {
        self.idx
    }
    /// true when the enumeration may stop early (single/describe mode already served)
    pub fn done(&self) -> bool {
        self.stop
    }

    /// cheap pre-test so that callers can skip building expensive per-case data
    #[inline]
    pub fn next_is_mine(&self) -> bool {
        self.is_mine(self.idx)
    }
    #[inline]
    fn is_mine(&self, idx: u64) -> bool {
        match self.mode {
            Mode::Worker { shard, nshards, start } => idx >= start && idx % nshards == shard,
            Mode::Single { idx: i } | Mode::Describe { idx: i } => i == idx,
            Mode::Count => false,
            Mode::Find { .. } => true,
            Mode::Multi { set } => set.contains(&idx),
        }
    }
    /// skip `n` case indices without running them (must be used identically in every mode)
    pub fn skip(&mut self, family: &str, n: u64) {
        let _ = family;
        self.idx += n;
    }

    pub fn case<D, F>(&mut self, family: &str, desc: D, body: F)
    where
        D: Fn() -> String,
        F: Fn(&mut Case) -> Result<(), String>,
    {
        let idx = self.idx;
        self.idx += 1;
        if !self.is_mine(idx) || self.stop {
            return;
        }
        match self.mode {
            Mode::Describe { .. } => {
                self.described = Some((family.to_string(), desc()));
                self.stop = true;
                return;
            }
            Mode::Count => return,
            Mode::Find { pat, max } => {
                let d = desc();
                if d.contains(pat) {
                    println!("{idx}\t{family}\t{d}");
                    self.new_violations += 1;
                    if self.new_violations >= max {
                        self.stop = true;
                    }
                }
                return;
            }
            _ => {}
        }
        if !self.slot.is_null() {
            unsafe { std::ptr::write_volatile(self.slot, idx) };
        }
        let single = matches!(self.mode, Mode::Single { .. });
        if single {
            println!("replaying case {idx} of family {family}:\n  {}", desc());
        }
        self.stats.cases += 1;
        *self.stats.families.entry(family.to_string()).or_insert(0) += 1;
        if self.stats.samples.len() < 3 || (idx % 9973 == 7 && self.stats.samples.len() < 6) {
            self.stats.samples.push(format!("[{family} #{idx}] {}", desc()));
        }
        let msgs = {
            let mut c = Case { st: &mut self.stats, record: true, verbose: single, soft: vec![] };
            let r = run_guarded(&body, &mut c);
            let mut m = std::mem::take(&mut c.soft);
            if let Err(e) = r {
                m.push(e);
            }
            m
        };
        if !msgs.is_empty() {
            // determinism: the same case must fail the same way twice more
            let mut scratch = Stats::default();
            for _ in 0..2 {
                let mut c = Case { st: &mut scratch, record: false, verbose: false, soft: vec![] };
                let r = run_guarded(&body, &mut c);
                let mut m2 = std::mem::take(&mut c.soft);
                if let Err(e) = r {
                    m2.push(e);
                }
                if m2.is_empty() {
                    // failed once, then held: a verdict that cannot be trusted
                    eprintln!("MACHINERY: nondeterministic verdict for case {idx} ({family}): first {:?}, then {:?}", msgs, m2);
                    eprintln!("MACHINERY: case description: {}", desc());
                    std::process::exit(3);
                }
                if m2 != msgs {
                    // fails every time, but not with the same details: the failure itself depends on memory contents
                    // left by earlier executions (itself a symptom); reported with the first observation
                    self.stats.counters.entry("violations_whose_details_vary_between_repetitions".to_string()).and_modify(|x| *x += 1).or_insert(1);
                }
            }
            for msg in msgs {
                if single {
                    println!("  => VIOLATION: {msg}");
                }
                let v = Violation { family: family.to_string(), idx, desc: desc(), msg };
                // violations that no known finding explains are always kept (the worker stops after a few of them);
                // repetitions of known findings are kept up to a cap and counted beyond it
                if known_match(&self.known, self.prop, &v).is_none() {
                    self.new_violations += 1;
                    self.violations.push(v);
                } else if self.violations.len() < 4096 {
                    self.violations.push(v);
                } else {
                    *self.stats.counters.entry("known_finding_cases_beyond_the_per_worker_record_cap".to_string()).or_insert(0) += 1;
                }
            }
            if self.new_violations >= std::env::var("ZVERIF_MAX_VIOL").ok().and_then(|s| s.parse().ok()).unwrap_or(MAX_VIOLATIONS_PER_WORKER) {
                self.stop = true;
            }
        } else if single {
            println!("  => held");
        }
        if single {
            self.stop = true;
        }
    }
}

fn run_guarded<F: Fn(&mut Case) -> Result<(), String>>(body: &F, c: &mut Case) -> Result<(), String> {
    match catch_unwind(AssertUnwindSafe(|| body(c))) {
        Ok(r) => r,
        Err(p) => {
            let s = if let Some(s) = p.downcast_ref::<String>() {
                s.clone()
            } else if let Some(s) = p.downcast_ref::<&str>() {
                s.to_string()
            } else {
                "non-string panic".into()
            };
            Err(format!("panic: {s}"))
        }
    }
}

// ------------------------------------------------------------------------------------------------
// known findings

#[derive(Clone, Debug)]
pub struct Known {
    pub property: String,
    pub status: String,
    pub family: Option<String>,
    pub desc_contains: Vec<String>,
    pub msg_contains: Vec<String>,
    pub what: String,
}

pub fn load_known() -> Vec<Known> {
    let p = Path::new(&root()).join("known_findings.json");
    let Ok(s) = std::fs::read_to_string(&p) else { return vec![] };
    let v: Value = serde_json::from_str(&s).expect("known_findings.json must be valid JSON");
    let mut out = vec![];
    for e in v["findings"].as_array().cloned().unwrap_or_default() {
        let strs = |k: &str| -> Vec<String> {
            e[k].as_array().map(|a| a.iter().filter_map(|x| x.as_str().map(String::from)).collect()).unwrap_or_default()
        };
        out.push(Known {
            property: e["property"].as_str().unwrap_or("").into(),
            status: e["status"].as_str().unwrap_or("open").into(),
            family: e["family"].as_str().map(String::from),
            desc_contains: strs("desc_contains"),
            msg_contains: strs("msg_contains"),
            what: e["what"].as_str().unwrap_or("").into(),
        });
    }
    out
}

fn known_match<'a>(known: &'a [Known], prop: &str, v: &Violation) -> Option<&'a Known> {
    known.iter().find(|k| {
        k.status == "open"
            && k.property == prop
            && k.family.as_ref().map_or(true, |f| *f == v.family)
            && k.desc_contains.iter().all(|s| v.desc.contains(s.as_str()))
            && k.msg_contains.iter().all(|s| v.msg.contains(s.as_str()))
    })
}

// ------------------------------------------------------------------------------------------------
// worker result files

/// name of a build variant of the engine (e.g. `avx512`): separate run dir, evidence file and replay prefix
pub fn variant() -> Option<String> {
    std::env::var("ZVERIF_VARIANT").ok().filter(|s| !s.is_empty())
}

fn run_dir(prop: &str, tier: Tier) -> PathBuf {
    let base = std::env::var("ZVERIF_RUN_DIR").unwrap_or_else(|_| format!("{}/target/run", root()));
    Path::new(&base).join(format!("{prop}-{}{}", tier.name(), variant().map_or(String::new(), |v| format!("-{v}"))))
}

fn write_set(f: &mut impl Write, name: &str, s: &HashSet<u64>) {
    write!(f, "set {name}").unwrap();
    for x in s {
        write!(f, " {x:x}").unwrap();
    }
    writeln!(f).unwrap();
}

pub fn worker_finish(ctx: &Ctx, out: &Path) {
    let mut f = std::io::BufWriter::new(std::fs::File::create(out).expect("create worker result"));
    let st = &ctx.stats;
    writeln!(f, "total {}", ctx.total_cases()).unwrap();
    writeln!(f, "cases {}", st.cases).unwrap();
    writeln!(f, "execs {}", st.execs).unwrap();
    writeln!(f, "validated {}", st.validated).unwrap();
    writeln!(f, "nontrivial {}", st.nontrivial).unwrap();
    writeln!(f, "saturated {}", st.saturated as u8).unwrap();
    for (k, v) in &st.families {
        writeln!(f, "family {} {}", v, k).unwrap();
    }
    for (k, v) in &st.counters {
        writeln!(f, "counter {} {}", v, k).unwrap();
    }
    for s in &st.samples {
        writeln!(f, "sample {}", serde_json::to_string(s).unwrap()).unwrap();
    }
    for (k, v) in &st.notes {
        for t in v {
            writeln!(f, "note {}", serde_json::to_string(&json!([k, t])).unwrap()).unwrap();
        }
    }
    for v in &ctx.violations {
        writeln!(
            f,
            "violation {}",
            serde_json::to_string(&json!({"family": v.family, "idx": v.idx, "desc": v.desc, "msg": v.msg})).unwrap()
        )
        .unwrap();
    }
    write_set(&mut f, "outcomes", &st.outcomes);
    write_set(&mut f, "states", &st.states);
    write_set(&mut f, "transitions", &st.transitions);
    writeln!(f, "end").unwrap();
}

#[derive(Default)]
struct Merged {
    total: u64,
    st: Stats,
    violations: Vec<Violation>,
    complete_files: u64,
}

fn merge_file(m: &mut Merged, p: &Path) -> bool {
    let Ok(s) = std::fs::read_to_string(p) else { return false };
    if !s.ends_with("end\n") {
        return false;
    }
    for line in s.lines() {
        let (k, rest) = line.split_once(' ').unwrap_or((line, ""));
        match k {
            "total" => m.total = m.total.max(rest.parse().unwrap_or(0)),
            "cases" => m.st.cases += rest.parse::<u64>().unwrap_or(0),
            "execs" => m.st.execs += rest.parse::<u64>().unwrap_or(0),
            "validated" => m.st.validated += rest.parse::<u64>().unwrap_or(0),
            "nontrivial" => m.st.nontrivial += rest.parse::<u64>().unwrap_or(0),
            "saturated" => m.st.saturated |= rest == "1",
            "family" => {
                let (n, name) = rest.split_once(' ').unwrap();
                *m.st.families.entry(name.into()).or_insert(0) += n.parse::<u64>().unwrap();
            }
            "counter" => {
                let (n, name) = rest.split_once(' ').unwrap();
                *m.st.counters.entry(name.into()).or_insert(0) += n.parse::<u64>().unwrap();
            }
            "sample" => {
                if m.st.samples.len() < 12 {
                    if let Ok(Value::String(x)) = serde_json::from_str::<Value>(rest) {
                        m.st.samples.push(x);
                    }
                }
            }
            "note" => {
                if let Ok(v) = serde_json::from_str::<Value>(rest) {
                    let e = m.st.notes.entry(v[0].as_str().unwrap_or("").to_string()).or_default();
                    if e.len() < 6 {
                        e.push(v[1].as_str().unwrap_or("").to_string());
                    }
                }
            }
            "violation" => {
                if let Ok(v) = serde_json::from_str::<Value>(rest) {
                    m.violations.push(Violation {
                        family: v["family"].as_str().unwrap_or("").into(),
                        idx: v["idx"].as_u64().unwrap_or(0),
                        desc: v["desc"].as_str().unwrap_or("").into(),
                        msg: v["msg"].as_str().unwrap_or("").into(),
                    });
                }
            }
            "set" => {
                let mut it = rest.split(' ');
                let name = it.next().unwrap_or("");
                let set = match name {
                    "outcomes" => &mut m.st.outcomes,
                    "states" => &mut m.st.states,
                    _ => &mut m.st.transitions,
                };
                for x in it {
                    if let Ok(v) = u64::from_str_radix(x, 16) {
                        set.insert(v);
                    }
                }
            }
            _ => {}
        }
    }
    m.complete_files += 1;
    true
}

// ------------------------------------------------------------------------------------------------
// parent

pub struct CheckInfo {
    pub prop: &'static str,
    pub level: &'static str,
    pub rule: &'static str,
    pub assumptions: &'static [&'static str],
    pub bound_quick: &'static str,
    pub bound_thorough: &'static str,
}

/// counters that must be non-zero after a run, else the exploration is vacuous (machinery error)
pub fn required_counters(prop: &str) -> &'static [&'static str] {
    match prop {
        "C04" => &[
            "resume_Head", "resume_Flags", "resume_Time", "resume_Os", "resume_ExLen", "resume_Extra", "resume_Name", "resume_Comment", "resume_HCrc", "resume_Length", "resume_Type", "resume_Stored", "resume_CopyBlock", "resume_Check", "resume_Len",
            "resume_LenExt", "resume_Dist", "resume_DistExt", "resume_Match", "resume_Table", "resume_LenLens", "resume_CodeLens", "resume_DictId", "resume_Dict", "resume_Done", "resume_Bad",
        ],
        "C10" => &["thread_schedules_explored"],
        "C11" => &["flush_points_checked"],
        "C15" => &["totals_checked_after_sync", "trailing_garbage_cases"],
        _ => &[],
    }
}

struct Slots {
    ptr: *mut u64,
}

impl Slots {
    fn create(path: &Path, n: usize) -> Slots {
        let f = std::fs::OpenOptions::new().read(true).write(true).create(true).truncate(true).open(path).unwrap();
        // n case-index slots followed by n heartbeat counters
        f.set_len((2 * n * 8) as u64).unwrap();
        use std::os::fd::AsRawFd;
        let p = unsafe {
            libc::mmap(std::ptr::null_mut(), 2 * n * 8, libc::PROT_READ | libc::PROT_WRITE, libc::MAP_SHARED, f.as_raw_fd(), 0)
        };
        assert!(p != libc::MAP_FAILED);
        let ptr = p as *mut u64;
        for i in 0..n {
            unsafe { ptr.add(i).write_volatile(u64::MAX) };
            unsafe { ptr.add(n + i).write_volatile(0) };
        }
        Slots { ptr }
    }
    fn get(&self, i: usize) -> u64 {
        unsafe { self.ptr.add(i).read_volatile() }
    }
    fn set(&self, i: usize, v: u64) {
        unsafe { self.ptr.add(i).write_volatile(v) }
    }
}

static HEARTBEAT: std::sync::atomic::AtomicPtr<u64> = std::sync::atomic::AtomicPtr::new(std::ptr::null_mut());

/// A case that legitimately runs for a long time (an exhaustive schedule enumeration inside one case) reports that
/// it is alive after each completed unit of work; the parent's watchdog fires only when neither the case index nor
/// this counter moved for CASE_WATCHDOG. A library call that never returns does not beat.
pub fn heartbeat() {
    let p = HEARTBEAT.load(std::sync::atomic::Ordering::Relaxed);
    if !p.is_null() {
        unsafe { p.write_volatile(p.read_volatile().wrapping_add(1)) };
    }
}

pub fn open_slot(path: &str, i: usize) -> *mut u64 {
    let f = std::fs::OpenOptions::new().read(true).write(true).open(path).expect("slot file");
    use std::os::fd::AsRawFd;
    let len = f.metadata().unwrap().len() as usize;
    let p = unsafe { libc::mmap(std::ptr::null_mut(), len, libc::PROT_READ | libc::PROT_WRITE, libc::MAP_SHARED, f.as_raw_fd(), 0) };
    assert!(p != libc::MAP_FAILED);
    let n = len / 16;
    HEARTBEAT.store(unsafe { (p as *mut u64).add(n + i) }, std::sync::atomic::Ordering::Relaxed);
    unsafe { (p as *mut u64).add(i) }
}

fn describe(prop: &str, tier: Tier, idx: u64) -> (String, String) {
    let exe = std::env::current_exe().unwrap();
    let out = std::process::Command::new(exe)
        .args(["describe", prop, tier.name(), &idx.to_string()])
        .output()
        .expect("describe subprocess");
    let s = String::from_utf8_lossy(&out.stdout).to_string();
    let mut it = s.splitn(2, '\n');
    let fam = it.next().unwrap_or("").to_string();
    let desc = it.next().unwrap_or("").trim_end().to_string();
    (fam, desc)
}

fn signal_name(sig: i32) -> String {
    match sig {
        libc::SIGSEGV => "SIGSEGV".into(),
        libc::SIGABRT => "SIGABRT".into(),
        libc::SIGBUS => "SIGBUS".into(),
        libc::SIGILL => "SIGILL".into(),
        libc::SIGFPE => "SIGFPE".into(),
        libc::SIGKILL => "SIGKILL".into(),
        n => format!("signal {n}"),
    }
}

pub fn nworkers() -> usize {
    let n = std::thread::available_parallelism().map(|n| n.get()).unwrap_or(4);
    std::env::var("ZVERIF_JOBS").ok().and_then(|s| s.parse().ok()).unwrap_or(n).clamp(1, 64)
}

pub fn run_parent(info: &CheckInfo, tier: Tier, extra_cov: Option<Value>) -> i32 {
    use std::os::unix::process::ExitStatusExt;
    let t0 = Instant::now();
    let prop = info.prop;
    let dir = run_dir(prop, tier);
    let _ = std::fs::remove_dir_all(&dir);
    std::fs::create_dir_all(&dir).unwrap();
    let n = nworkers();
    let slot_path = dir.join("slots");
    let slots = Slots::create(&slot_path, n);
    let exe = std::env::current_exe().unwrap();
    let known = load_known();
    let seed: u64 = std::env::var("VERIF_SEED").ok().and_then(|s| s.parse().ok()).unwrap_or(0);

    struct W {
        child: std::process::Child,
        attempt: usize,
        last_idx: u64,
        last_beat: u64,
        last_change: Instant,
        out: PathBuf,
    }
    let spawn = |shard: usize, start: u64, attempt: usize| -> W {
        let out = dir.join(format!("w{shard}.{attempt}.res"));
        let child = std::process::Command::new(&exe)
            .args([
                "worker",
                prop,
                tier.name(),
                &shard.to_string(),
                &n.to_string(),
                &start.to_string(),
                slot_path.to_str().unwrap(),
                out.to_str().unwrap(),
            ])
            .stdin(std::process::Stdio::null())
            .spawn()
            .expect("spawn worker");
        W { child, attempt, last_idx: u64::MAX, last_beat: 0, last_change: Instant::now(), out }
    };
    let mut ws: Vec<Option<W>> = (0..n).map(|i| Some(spawn(i, 0, 0))).collect();
    let mut result_files: Vec<PathBuf> = vec![];
    let mut crash_violations: Vec<Violation> = vec![];
    let mut machinery_fail: Option<String> = None;
    let mut crashes = 0usize;
    let mut crashed_workers = 0u64;

    loop {
        let mut alive = 0;
        for i in 0..n {
            let Some(w) = ws[i].as_mut() else { continue };
            match w.child.try_wait() {
                Ok(None) => {
                    alive += 1;
                    let cur = slots.get(i);
                    let beat = slots.get(n + i);
                    if cur != w.last_idx || beat != w.last_beat {
                        w.last_idx = cur;
                        w.last_beat = beat;
                        w.last_change = Instant::now();
                    } else if w.last_change.elapsed() > CASE_WATCHDOG && cur != u64::MAX {
                        let _ = w.child.kill();
                        let _ = w.child.wait();
                        let (fam, desc) = describe(prop, tier, cur);
                        crash_violations.push(Violation {
                            family: fam,
                            idx: cur,
                            desc,
                            msg: format!("hang: case did not finish within {}s (non-termination)", CASE_WATCHDOG.as_secs()),
                        });
                        crashes += 1;
                        crashed_workers += 1;
                        let attempt = w.attempt + 1;
                        ws[i] = if crashes <= MAX_CRASH_RESTARTS { slots.set(i, u64::MAX); Some(spawn(i, cur + 1, attempt)) } else { None };
                    }
                }
                Ok(Some(status)) => {
                    let out = w.out.clone();
                    let attempt = w.attempt;
                    if let Some(sig) = status.signal() {
                        let cur = slots.get(i);
                        if cur == u64::MAX {
                            machinery_fail = Some(format!("worker {i} died with {} before running any case", signal_name(sig)));
                            ws[i] = None;
                            continue;
                        }
                        let (fam, desc) = describe(prop, tier, cur);
                        crash_violations.push(Violation {
                            family: fam,
                            idx: cur,
                            desc,
                            msg: format!("crash: process terminated by {}", signal_name(sig)),
                        });
                        crashes += 1;
                        crashed_workers += 1;
                        ws[i] = if crashes <= MAX_CRASH_RESTARTS { slots.set(i, u64::MAX); Some(spawn(i, cur + 1, attempt + 1)) } else { None };
                        if ws[i].is_some() {
                            alive += 1;
                        }
                    } else if status.code() == Some(0) {
                        result_files.push(out);
                        ws[i] = None;
                    } else {
                        machinery_fail = Some(format!("worker {i} exited with code {:?}", status.code()));
                        ws[i] = None;
                    }
                }
                Err(e) => {
                    machinery_fail = Some(format!("wait failed: {e}"));
                    ws[i] = None;
                }
            }
        }
        if alive == 0 {
            break;
        }
        std::thread::sleep(Duration::from_millis(20));
    }

    let mut m = Merged::default();
    for p in &result_files {
        if !merge_file(&mut m, p) {
            machinery_fail = Some(format!("incomplete worker result {}", p.display()));
        }
    }
    if let Some(msg) = &machinery_fail {
        eprintln!("MACHINERY FAILURE ({prop} {}): {msg}", tier.name());
        return 2;
    }
    m.violations.extend(crash_violations);
    m.violations.sort_by_key(|v| v.idx);

    // classify
    let mut new_violations = vec![];
    let mut known_hits: BTreeMap<String, u64> = BTreeMap::new();
    for v in &m.violations {
        if let Some(k) = known_match(&known, prop, v) {
            *known_hits.entry(k.what.clone()).or_insert(0) += 1;
        } else {
            new_violations.push(v.clone());
        }
    }
    for (what, n) in &known_hits {
        println!("KNOWN-FINDING: property={prop} {what} ({n} case(s) in this run)");
    }
    let rdir = Path::new(&root()).join("replays").join(prop);
    // replay files describe this run only
    if let Ok(rd) = std::fs::read_dir(&rdir) {
        for e in rd.flatten() {
            if e.file_name().to_string_lossy().starts_with(&format!("{}{}", variant().map_or(String::new(), |v| format!("{v}-")), tier.name())) {
                let _ = std::fs::remove_file(e.path());
            }
        }
    }
    let mut replay_paths = vec![];
    if !new_violations.is_empty() {
        std::fs::create_dir_all(&rdir).unwrap();
    }
    for v in new_violations.iter().take(std::env::var("ZVERIF_MAX_REPLAYS").ok().and_then(|s| s.parse().ok()).unwrap_or(20)) {
        let p = rdir.join(format!("{}{}-{}.json", variant().map_or(String::new(), |v| format!("{v}-")), tier.name(), v.idx));
        let j = json!({
            "property": prop, "tier": tier.name(), "family": v.family, "index": v.idx,
            "case": v.desc, "observed": v.msg,
            "replay": format!("cd /verif && ./check replay {}", p.display()),
        });
        std::fs::write(&p, serde_json::to_string_pretty(&j).unwrap()).unwrap();
        println!("VIOLATION property={prop} replay={}", p.display());
        println!("  case: {}", trunc(&v.desc, 600));
        println!("  observed: {}", trunc(&v.msg, 600));
        replay_paths.push(p.display().to_string());
    }

    // evidence
    let wall = t0.elapsed().as_secs_f64();
    let st = &m.st;
    let fams: serde_json::Map<String, Value> = st.families.iter().map(|(k, v)| (k.clone(), json!(v))).collect();
    let ctrs: serde_json::Map<String, Value> = st.counters.iter().map(|(k, v)| (k.clone(), json!(v))).collect();
    let cap_hit = st.counters.iter().any(|(k, v)| k.ends_with("_cap_hit") && *v > 0);
    let exhaustive = crashes == 0 && st.cases == m.total && new_violations.is_empty() && !cap_hit;
    let mut cov = json!({
        "evaluations": st.cases,
        "executions": st.execs,
        "distinct_nontrivial": st.outcomes.len(),
        "distinct_outcomes": st.outcomes.len(),
        "traces_validated_against_impl": st.validated,
        "rule": info.rule,
        "bound": if tier == Tier::Quick { info.bound_quick } else { info.bound_thorough },
        "samples": st.samples,
        "families": fams,
        "counters": ctrs,
        "notes": st.notes,
        "cases_enumerated": m.total,
        "cases_executed": st.cases,
        "exhaustive": exhaustive,
        "distinct_sets_saturated": st.saturated,
        "worker_crash_restarts": crashed_workers,
        "workers": n,
        "known_findings_hit": known_hits.iter().map(|(k, v)| json!({"what": k, "cases": v})).collect::<Vec<_>>(),
        "replays": replay_paths,
    });
    if !st.states.is_empty() && !st.transitions.is_empty() {
        cov["states"] = json!(st.states.len());
        cov["transitions"] = json!(st.transitions.len());
    }
    if let Some(Value::Object(extra)) = extra_cov {
        for (k, v) in extra {
            cov[k] = v;
        }
    }
    let ev = json!({
        "property_id": prop,
        "tier": tier.name(),
        "seed": seed,
        "level": info.level,
        "coverage": cov,
        "assumptions": info.assumptions,
        "wall_s": wall,
        "violations": new_violations.len(),
    });
    let edir = Path::new(&root()).join("evidence");
    std::fs::create_dir_all(&edir).unwrap();
    let ev_name = match variant() {
        Some(v) => format!("{prop}.{v}.json"),
        None => format!("{prop}.json"),
    };
    std::fs::write(edir.join(ev_name), serde_json::to_string_pretty(&ev).unwrap() + "\n").unwrap();
    println!(
        "{prop} {}: cases={} execs={} outcomes={} states={} transitions={} validated={} violations={} known={} wall={:.1}s",
        tier.name(),
        st.cases,
        st.execs,
        st.outcomes.len(),
        st.states.len(),
        st.transitions.len(),
        st.validated,
        new_violations.len(),
        known_hits.values().sum::<u64>(),
        wall
    );
    if !new_violations.is_empty() {
        // a violation is a verdict even when crashes cut the exploration short
        return 1;
    }
    if st.cases == 0 {
        eprintln!("MACHINERY FAILURE ({prop}): vacuous run, no case executed");
        return 2;
    }
    if new_violations.is_empty() {
        for k in required_counters(prop) {
            if st.counters.get(*k).copied().unwrap_or(0) == 0 {
                eprintln!("MACHINERY FAILURE ({prop}): vacuous exploration, required coverage counter {k} is zero");
                return 2;
            }
        }
    }
    if new_violations.is_empty() {
        0
    } else {
        1
    }
}

pub fn trunc(s: &str, n: usize) -> String {
    if s.len() <= n {
        s.to_string()
    } else {
        let mut end = n;
        while !s.is_char_boundary(end) {
            end -= 1;
        }
        format!("{}… ({} bytes)", &s[..end], s.len())
    }
}

pub fn hex(b: &[u8]) -> String {
    let mut s = String::with_capacity(b.len() * 2);
    for x in b {
        s.push_str(&format!("{x:02x}"));
    }
    s
}

/// compact printable description of a byte string: full hex when short, otherwise length+hash+head
pub fn bdesc(b: &[u8]) -> String {
    if b.len() <= 48 {
        format!("hex:{}", hex(b))
    } else {
        format!("len={} h={:016x} head={}", b.len(), hash_bytes(b), hex(&b[..16]))
    }
}
