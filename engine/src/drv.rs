//! Drivers: close the real deflate / inflate code with schedules of environment answers (how much
//! input and output room each call gets, which flush value, parameter changes) and record every
//! call's observables. Generic over the API (`Rs` = subject, `Ng` = reference R6).

use crate::api::*;
use crate::engine::{hash_u32s, mix, Case};
use crate::inputs::{DCfg, Wrap};
use crate::mem::Arena;
use crate::refs::wrap::GzFields;
use std::ffi::CString;

pub const AMPLE: usize = usize::MAX;

pub struct Env {
    pub ain: Arena,
    pub aout: Arena,
    pub aux: Arena,
    /// buffers end at a PROT_NONE page (true) or start right after one (false)
    pub at_end: bool,
    /// guard-paged allocator with this garbage byte (None: library default allocator)
    pub guarded_alloc: Option<u8>,
    /// pattern written over the output room before each call
    pub out_fill: Option<u8>,
    /// constant offset subtracted from the placement (alignment experiments); 0 = touch the guard
    pub misalign: usize,
}

impl Env {
    pub fn new() -> Env {
        Env { ain: Arena::new(4 << 20), aout: Arena::new(4 << 20), aux: Arena::new(1 << 20), at_end: true, guarded_alloc: None, out_fill: None, misalign: 0 }
    }
    fn strm(&self) -> Strm {
        match self.guarded_alloc {
            Some(g) => Strm::guarded(g),
            None => Strm::plain(),
        }
    }
    #[inline]
    fn place_in(&self, src: &[u8]) -> *mut u8 {
        if self.at_end {
            let p = self.ain.at_end(src.len() + self.misalign);
            unsafe { std::ptr::copy_nonoverlapping(src.as_ptr(), p, src.len()) };
            p
        } else {
            let p = unsafe { self.ain.at_start(src.len() + self.misalign).add(self.misalign) };
            unsafe { std::ptr::copy_nonoverlapping(src.as_ptr(), p, src.len()) };
            p
        }
    }
    /// like `place_in`, but when the chunk is a suffix of what the previous call was given (same
    /// end, end-placement) the bytes are already in place and only the pointer moves
    #[inline]
    fn place_in_suffix(&self, src: &[u8], same_end_as_last: bool) -> *mut u8 {
        if self.at_end && same_end_as_last {
            self.ain.at_end(src.len() + self.misalign)
        } else {
            self.place_in(src)
        }
    }
    #[inline]
    fn place_out(&self, room: usize) -> *mut u8 {
        let p = if self.at_end { self.aout.at_end(room + self.misalign) } else { unsafe { self.aout.at_start(room + self.misalign).add(self.misalign) } };
        if let Some(f) = self.out_fill {
            unsafe { std::ptr::write_bytes(p, f, room) };
        }
        p
    }
}

#[derive(Clone, Debug, PartialEq, Eq)]
pub enum DStep {
    /// make `n` more input bytes available, give `room` output bytes, call deflate(flush).
    /// For flush != NO_FLUSH the call is repeated with fresh room until avail_out != 0 (zlib's protocol).
    Feed { n: usize, room: usize, flush: i32 },
    Params { level: i32, strategy: i32, room: usize },
    Tune(i32, i32, i32, i32),
}

#[derive(Clone, Debug, PartialEq, Eq)]
pub struct DSched {
    pub steps: Vec<DStep>,
    /// output room of every call of the final Finish loop
    pub tail_room: usize,
}

impl DSched {
    pub fn one_shot() -> DSched {
        DSched { steps: vec![], tail_room: AMPLE }
    }
    pub fn desc(&self) -> String {
        let r = |x: usize| if x == AMPLE { "ample".to_string() } else { x.to_string() };
        let mut s = String::new();
        for st in &self.steps {
            match st {
                DStep::Feed { n, room, flush } => s.push_str(&format!("feed({n},room={},f={flush}) ", r(*room))),
                DStep::Params { level, strategy, room } => s.push_str(&format!("params({level},{strategy},room={}) ", r(*room))),
                DStep::Tune(a, b, c, d) => s.push_str(&format!("tune({a},{b},{c},{d}) ")),
            }
        }
        s.push_str(&format!("finish(room={})", r(self.tail_room)));
        s
    }
}

#[derive(Clone, Copy, Debug, PartialEq, Eq)]
pub struct Call {
    /// 0 deflate/inflate, 1 params, 2 tune, 3 setdict, 4 other
    pub op: u8,
    pub flush: i32,
    pub ret: i32,
    pub din: u32,
    pub dout: u32,
}

#[derive(Clone, Debug, PartialEq, Eq)]
pub struct FlushPoint {
    pub kind: i32,
    pub in_pos: usize,
    pub out_pos: usize,
}

#[derive(Clone, Debug, Default, PartialEq, Eq)]
pub struct DTrace {
    pub out: Vec<u8>,
    pub calls: Vec<Call>,
    /// completed (avail_out != 0) Partial/Sync/Full flushes
    pub flush_points: Vec<FlushPoint>,
    pub total_in: u64,
    pub total_out: u64,
    pub adler: u64,
    pub ended: bool,
    pub end_ret: i32,
    pub init_ret: i32,
    pub dict_ret: Option<i32>,
    pub bound: u64,
    pub data_type: i32,
}

impl DTrace {
    pub fn outcome_hash(&self) -> u64 {
        let mut h = crate::engine::hash_bytes(&self.out);
        for c in &self.calls {
            h = mix(h, hash_u32s(&[c.op as u32, c.flush as u32, c.ret as u32, c.din, c.dout]));
        }
        h
    }
}

#[derive(Clone, Debug, Default)]
pub struct DExtra<'a> {
    pub dict: Option<&'a [u8]>,
    pub gz: Option<&'a GzFields>,
    /// record H3 abstract states / run H3 invariants (Rs only)
    pub probe: bool,
    /// after this many deflate calls: deflateCopy, end the original, continue on the copy (0 = never)
    pub copy_after_call: usize,
    /// after this many deflate calls: deflateReset and start over with the same input (the header set with
    /// deflateSetHeader stays installed, as in zlib); the trace describes the stream written after the reset (0 = never)
    pub reset_after_call: usize,
    /// value written to total_in / total_out right after init (as an application restarting its own accounting may):
    /// a stream "that has already moved almost 4 GiB" without moving them. Ignored for gzip (zlib writes total_in into
    /// the trailer) and when the history contains a reset. The trace reports totals relative to this base.
    pub totals_base: u64,
}

pub struct GzHold {
    pub head: Box<gz_header>,
    _extra: Option<Vec<u8>>,
    _name: Option<CString>,
    _comment: Option<CString>,
}

pub fn make_gz_header(f: &GzFields) -> GzHold {
    let mut head = Box::new(zeroed_header());
    head.text = f.text as i32;
    head.time = f.mtime as _;
    head.xflags = f.xfl as i32;
    head.os = f.os as i32;
    head.hcrc = if f.hcrc_val != 0 { f.hcrc_val } else { f.hcrc as i32 };
    let mut extra = f.extra.clone();
    if let Some(e) = extra.as_mut() {
        if e.is_empty() {
            // a non-NULL pointer with length 0
            e.reserve(1);
        }
        head.extra = e.as_mut_ptr();
        head.extra_len = e.len() as u32;
    }
    let name = f.name.as_ref().map(|n| CString::new(n.clone()).expect("no NUL in name"));
    if let Some(n) = &name {
        head.name = n.as_ptr() as *mut u8;
    }
    let comment = f.comment.as_ref().map(|n| CString::new(n.clone()).expect("no NUL in comment"));
    if let Some(n) = &comment {
        head.comment = n.as_ptr() as *mut u8;
    }
    GzHold { head, _extra: extra, _name: name, _comment: comment }
}

pub fn dstate_hash(s: &[u32; 14]) -> u64 {
    let bucket = |x: u32, lo: u32, hi: u32| if x == 0 { 0 } else if x < lo { 1 } else if x < hi { 2 } else { 3 };
    hash_u32s(&[s[0], s[1], s[2], s[3], bucket(s[4], 2, 500), s[5] % 8, bucket(s[7], 3, 262), bucket(s[9], 1, 2), bucket(s[10], 4, 300), s[11], s[12], s[13]])
}

fn ok_deflate_ret(r: i32) -> bool {
    matches!(r, Z_OK | Z_STREAM_END | Z_BUF_ERROR)
}

pub unsafe fn deflate_init<Zx: Z>(s: &mut Strm, cfg: &DCfg) -> i32 {
    Zx::deflateInit2_(s.p(), cfg.level, 8, cfg.window_bits_arg(), cfg.mem_level, cfg.strategy, Zx::zlibVersion(), STREAM_SIZE)
}

/// Run one complete compression history. Err = a violated universal obligation of the API
/// (accounting, documented status, termination); Ok = the trace of observables.
/// zlib's ordering of flush requests (deflate.c RANK)
pub fn flush_rank(f: i32) -> i32 {
    f * 2 - if f > 4 { 9 } else { 0 }
}

pub fn run_deflate<Zx: Z>(cfg: &DCfg, input: &[u8], sched: &DSched, env: &Env, ex: &DExtra, mut rec: Option<&mut Case>) -> Result<DTrace, String> {
    unsafe {
        let mut s = env.strm();
        let mut t = DTrace::default();
        t.init_ret = deflate_init::<Zx>(&mut s, cfg);
        if t.init_ret != Z_OK {
            return Err(format!("{}: deflateInit2 returned {}", Zx::NAME, rc_name(t.init_ret)));
        }
        let mut _gzhold = None;
        if let Some(f) = ex.gz {
            let mut h = make_gz_header(f);
            let r = Zx::deflateSetHeader(s.p(), &mut *h.head);
            if r != Z_OK {
                Zx::deflateEnd(s.p());
                return Err(format!("{}: deflateSetHeader returned {}", Zx::NAME, rc_name(r)));
            }
            _gzhold = Some(h);
        }
        let base = if cfg.wrap != crate::inputs::Wrap::Gzip && ex.reset_after_call == 0 { ex.totals_base } else { 0 };
        if base != 0 {
            s.z.total_in = base as _;
            s.z.total_out = base as _;
        }
        let mut dict_in: u64 = 0;
        if let Some(d) = ex.dict {
            let p = env.aux.put(d, env.at_end);
            let r = Zx::deflateSetDictionary(s.p(), p, d.len() as u32);
            t.dict_ret = Some(r);
            if r == Z_OK {
                dict_in = d.len() as u64;
            }
        }
        t.bound = Zx::deflateBound(s.p(), input.len() as _) as u64;
        let mut keep_alive: Vec<Strm> = vec![];
        let mut pos = 0usize; // consumed
        let mut given = 0usize; // made available
        let mut sum_in: u64 = 0;
        let mut sum_out: u64 = 0;
        let ample = input.len() * 2 + 4096 + ex.gz.map_or(0, |g| g.write().len() + 64);
        let mut prev_state: Option<u64> = None;
        let mut ncalls = 0usize;
        let mut last_given = usize::MAX;
        // generous cap: every call of the Finish loop with room>=1 must make progress
        let call_cap = 16 * (input.len() + 64) + 4 * ample + 4096;

        macro_rules! probe {
            () => {
                if ex.probe && Zx::IS_RS {
                    if let Some(ds) = zlib_rs::deflate::DeflateStream::from_stream_mut(s.p() as *mut _) {
                        if let Err(e) = zlib_rs::deflate::verif_check_invariants(ds) {
                            let st = zlib_rs::deflate::verif_deflate_state(ds);
                            Zx::deflateEnd(s.p());
                            return Err(format!("deflate state invariant violated after call {}: {e} (state {:?})", ncalls, st));
                        }
                        if let Some(c) = rec.as_deref_mut() {
                            let h = dstate_hash(&zlib_rs::deflate::verif_deflate_state(ds));
                            c.state(h);
                            if let Some(p) = prev_state {
                                c.trans(p, h);
                            }
                            prev_state = Some(h);
                        }
                    }
                }
            };
        }
        probe!();

        // one deflate() call with `room` bytes of output; returns (ret, din, dout, avail_out_after)
        // rank of the previous deflate call's flush in zlib's order, -1 when that call ended with the output full
        let mut prev_rank: i32 = -1;
        // set by the call macro when it has just reset the stream (DExtra::reset_after_call)
        let mut just_reset = false;
        macro_rules! call_deflate {
            ($flush:expr, $room:expr) => {{
                let room: usize = if $room == AMPLE { ample } else { $room };
                let chunk = &input[pos..given];
                let pin = env.place_in_suffix(chunk, last_given == given);
                last_given = given;
                let pout = env.place_out(room);
                s.z.next_in = pin;
                s.z.avail_in = chunk.len() as u32;
                s.z.next_out = pout;
                s.z.avail_out = room as u32;
                let (ti0, to0) = (s.z.total_in as u64, s.z.total_out as u64);
                // "a buffer error only when no progress was possible": with no input, a flush request that ranks
                // above the previous call's (zlib's order: none < block < partial < sync < full) has a marker to
                // write, so with room for it the call must not answer Z_BUF_ERROR
                let must_progress = chunk.is_empty() && room >= 16 && matches!($flush, Z_BLOCK | Z_PARTIAL_FLUSH | Z_SYNC_FLUSH | Z_FULL_FLUSH) && flush_rank($flush) > prev_rank;
                let ret = Zx::deflate(s.p(), $flush);
                ncalls += 1;
                let din = (s.z.next_in as usize).wrapping_sub(pin as usize);
                let dout = (s.z.next_out as usize).wrapping_sub(pout as usize);
                if din > chunk.len() || dout > room {
                    Zx::deflateEnd(s.p());
                    return Err(format!("{}: cursor left the buffer: next_in advanced {din} of {}, next_out advanced {dout} of {room}", Zx::NAME, chunk.len()));
                }
                if s.z.avail_in as usize != chunk.len() - din || s.z.avail_out as usize != room - dout {
                    Zx::deflateEnd(s.p());
                    return Err(format!("{}: avail counters inconsistent with cursors: avail_in {} (expected {}), avail_out {} (expected {})", Zx::NAME, s.z.avail_in, chunk.len() - din, s.z.avail_out, room - dout));
                }
                if s.z.total_in as u64 != ti0 + din as u64 || s.z.total_out as u64 != to0 + dout as u64 {
                    Zx::deflateEnd(s.p());
                    return Err(format!("{}: totals do not account for the call: total_in {}->{} with {din} consumed, total_out {}->{} with {dout} produced", Zx::NAME, ti0, s.z.total_in, to0, s.z.total_out));
                }
                if !ok_deflate_ret(ret) {
                    Zx::deflateEnd(s.p());
                    return Err(format!("{}: deflate(flush={}) returned undocumented/fatal status {} (call {ncalls})", Zx::NAME, $flush, rc_name(ret)));
                }
                if ret == Z_BUF_ERROR && (din != 0 || dout != 0) && $flush != Z_FINISH {
                    Zx::deflateEnd(s.p());
                    return Err(format!("{}: Z_BUF_ERROR although the call consumed {din} and produced {dout} bytes", Zx::NAME));
                }
                if ret == Z_BUF_ERROR && must_progress {
                    Zx::deflateEnd(s.p());
                    return Err(format!("{}: deflate(flush={}) with no input and {room} bytes of room returned Z_BUF_ERROR although the previous call's flush ranked lower, so this flush could have been carried out (call {ncalls})", Zx::NAME, $flush));
                }
                prev_rank = if room - dout == 0 { -1 } else { flush_rank($flush) };
                t.out.extend_from_slice(std::slice::from_raw_parts(pout, dout));
                pos += din;
                sum_in += din as u64;
                sum_out += dout as u64;
                t.calls.push(Call { op: 0, flush: $flush, ret, din: din as u32, dout: dout as u32 });
                if ex.reset_after_call != 0 && ncalls == ex.reset_after_call && ret != Z_STREAM_END {
                    let r = Zx::deflateReset(s.p());
                    if r != Z_OK {
                        Zx::deflateEnd(s.p());
                        return Err(format!("{}: deflateReset after call {ncalls} returned {}", Zx::NAME, rc_name(r)));
                    }
                    t.out.clear();
                    t.calls.clear();
                    t.flush_points.clear();
                    pos = 0;
                    given = 0;
                    sum_in = 0;
                    sum_out = 0;
                    dict_in = 0;
                    prev_rank = -1;
                    last_given = usize::MAX;
                    just_reset = true;
                }
                if ex.copy_after_call != 0 && ncalls == ex.copy_after_call && ret != Z_STREAM_END {
                    let mut d = env.strm();
                    let r = Zx::deflateCopy(d.p(), s.p());
                    if r != Z_OK {
                        Zx::deflateEnd(s.p());
                        return Err(format!("{}: deflateCopy after call {ncalls} returned {}", Zx::NAME, rc_name(r)));
                    }
                    Zx::deflateEnd(s.p());
                    // the copy inherits zalloc / zfree / opaque of the original: the original's allocator record has
                    // to outlive it
                    let orig = std::mem::replace(&mut s, d);
                    keep_alive.push(orig);
                }
                probe!();
                if just_reset {
                    (Z_OK, 0, 0, 1)
                } else {
                    (ret, din, dout, room - dout)
                }
            }};
        }

        let mut ended = false;
        for st in &sched.steps {
            if ended {
                break;
            }
            match st {
                DStep::Feed { n, room, flush } => {
                    given = (given + n).min(input.len());
                    let mut guard = 0;
                    // zlib documents that a flush marker is repeated when a flush call ends with
                    // avail_out == 0 and the room is <= 6; completion calls therefore get >= 16 bytes
                    let mut cur_room = *room;
                    loop {
                        let (ret, _din, _dout, left) = call_deflate!(*flush, cur_room);
                        if just_reset {
                            just_reset = false;
                            break;
                        }
                        if cur_room != AMPLE {
                            cur_room = cur_room.max(16);
                        }
                        if ret == Z_STREAM_END {
                            ended = true;
                            break;
                        }
                        if *flush == Z_NO_FLUSH {
                            break;
                        }
                        if left != 0 {
                            // flush complete
                            if matches!(*flush, Z_PARTIAL_FLUSH | Z_SYNC_FLUSH | Z_FULL_FLUSH) && pos == given {
                                t.flush_points.push(FlushPoint { kind: *flush, in_pos: pos, out_pos: t.out.len() });
                            }
                            break;
                        }
                        guard += 1;
                        if guard > call_cap {
                            Zx::deflateEnd(s.p());
                            return Err(format!("{}: flush {} never completed within {call_cap} calls", Zx::NAME, flush));
                        }
                    }
                }
                DStep::Params { level, strategy, room } => {
                    let room_n: usize = if *room == AMPLE { ample } else { *room };
                    let mut guard = 0;
                    loop {
                        let chunk = &input[pos..given];
                        let pin = env.place_in(chunk);
                        last_given = usize::MAX;
                        let pout = env.place_out(room_n);
                        s.z.next_in = pin;
                        s.z.avail_in = chunk.len() as u32;
                        s.z.next_out = pout;
                        s.z.avail_out = room_n as u32;
                        let ret = Zx::deflateParams(s.p(), *level, *strategy);
                        ncalls += 1;
                        let din = (s.z.next_in as usize).wrapping_sub(pin as usize);
                        let dout = (s.z.next_out as usize).wrapping_sub(pout as usize);
                        if din > chunk.len() || dout > room_n {
                            Zx::deflateEnd(s.p());
                            return Err(format!("{}: deflateParams moved a cursor out of its buffer", Zx::NAME));
                        }
                        t.out.extend_from_slice(std::slice::from_raw_parts(pout, dout));
                        pos += din;
                        sum_in += din as u64;
                        sum_out += dout as u64;
                        t.calls.push(Call { op: 1, flush: *level * 16 + *strategy, ret, din: din as u32, dout: dout as u32 });
                        // deflateParams may have flushed with Z_BLOCK internally
                        prev_rank = prev_rank.max(flush_rank(Z_BLOCK));
                        probe!();
                        if ret == Z_BUF_ERROR {
                            guard += 1;
                            if guard > call_cap {
                                Zx::deflateEnd(s.p());
                                return Err(format!("{}: deflateParams kept returning Z_BUF_ERROR", Zx::NAME));
                            }
                            continue;
                        }
                        if ret != Z_OK && ret != Z_STREAM_ERROR {
                            Zx::deflateEnd(s.p());
                            return Err(format!("{}: deflateParams returned {}", Zx::NAME, rc_name(ret)));
                        }
                        break;
                    }
                }
                DStep::Tune(a, b, c, d) => {
                    let ret = Zx::deflateTune(s.p(), *a, *b, *c, *d);
                    t.calls.push(Call { op: 2, flush: 0, ret, din: 0, dout: 0 });
                }
            }
        }
        // the default tail: everything that is left, Finish, fresh `tail_room` bytes per call
        if !ended {
            given = input.len();
            let mut stalls = 0;
            loop {
                let (ret, din, dout, _left) = call_deflate!(Z_FINISH, sched.tail_room);
                if just_reset {
                    just_reset = false;
                    given = input.len();
                    continue;
                }
                if ret == Z_STREAM_END {
                    break;
                }
                if din == 0 && dout == 0 {
                    stalls += 1;
                    if stalls > 2 {
                        Zx::deflateEnd(s.p());
                        return Err(format!("{}: no progress: deflate(Z_FINISH) with fresh output space neither consumed, produced nor ended ({} calls so far, {} bytes out)", Zx::NAME, ncalls, t.out.len()));
                    }
                } else {
                    stalls = 0;
                }
                if ncalls > call_cap {
                    Zx::deflateEnd(s.p());
                    return Err(format!("{}: non-termination: no Z_STREAM_END after {ncalls} calls ({} bytes out for {} bytes in)", Zx::NAME, t.out.len(), input.len()));
                }
            }
        }
        t.ended = true;
        t.total_in = (s.z.total_in as u64).wrapping_sub(base);
        t.total_out = (s.z.total_out as u64).wrapping_sub(base);
        t.adler = s.z.adler as u64;
        t.data_type = s.z.data_type;
        let dict_win = dict_in.min(cfg.w_size() as u64);
        if t.total_out != sum_out || t.total_in != sum_in + dict_in && t.total_in != sum_in + dict_win {
            Zx::deflateEnd(s.p());
            return Err(format!("{}: totals != sums over calls: total_in {} (sum {} + dict {}), total_out {} (sum {})", Zx::NAME, t.total_in, sum_in, dict_in, t.total_out, sum_out));
        }
        if pos != input.len() {
            Zx::deflateEnd(s.p());
            return Err(format!("{}: Z_STREAM_END but only {pos} of {} input bytes consumed", Zx::NAME, input.len()));
        }
        t.end_ret = Zx::deflateEnd(s.p());
        if t.end_ret != Z_OK {
            return Err(format!("{}: deflateEnd after Z_STREAM_END returned {}", Zx::NAME, rc_name(t.end_ret)));
        }
        if let Some(ctl) = &s.ctl {
            if !ctl.live.is_empty() || !ctl.errors.is_empty() {
                return Err(format!("{}: allocator discipline: {} live blocks after deflateEnd, errors {:?}", Zx::NAME, ctl.live.len(), ctl.errors));
            }
        }
        Ok(t)
    }
}

// ------------------------------------------------------------------------------------------------
// inflate

#[derive(Clone, Copy, Debug, PartialEq, Eq)]
pub struct IStep {
    pub n: usize,
    pub room: usize,
    pub flush: i32,
}

#[derive(Clone, Debug, PartialEq, Eq)]
pub struct ISched {
    pub steps: Vec<IStep>,
    /// after the steps: all remaining input at once (`tail_in == AMPLE`) or `tail_in` bytes per call
    pub tail_in: usize,
    pub tail_room: usize,
    pub tail_flush: i32,
}

impl ISched {
    pub fn one_shot() -> ISched {
        ISched { steps: vec![], tail_in: AMPLE, tail_room: AMPLE, tail_flush: Z_NO_FLUSH }
    }
    pub fn uniform(n_in: usize, room: usize, flush: i32) -> ISched {
        ISched { steps: vec![], tail_in: n_in, tail_room: room, tail_flush: flush }
    }
    pub fn desc(&self) -> String {
        let r = |x: usize| if x == AMPLE { "all".to_string() } else { x.to_string() };
        let mut s = String::new();
        for st in &self.steps {
            s.push_str(&format!("call(in+{},room={},f={}) ", st.n, r(st.room), st.flush));
        }
        s.push_str(&format!("then(in={},room={},f={})*", r(self.tail_in), r(self.tail_room), self.tail_flush));
        s
    }
}

#[derive(Clone, Copy, Debug, PartialEq, Eq)]
pub enum Fin {
    StreamEnd,
    DataError,
    NeedDict(u32),
    /// all input supplied, output room available, yet no terminal status: the decoder wants more input
    NeedMore,
    MemError,
    StreamError,
}

#[derive(Clone, Debug, PartialEq, Eq)]
pub struct ITrace {
    pub out: Vec<u8>,
    pub calls: Vec<Call>,
    pub fin: Fin,
    pub total_in: u64,
    pub total_out: u64,
    pub consumed: usize,
    pub adler: u64,
    pub data_type_last: i32,
    pub last_ret: i32,
}

impl ITrace {
    pub fn outcome_hash(&self) -> u64 {
        mix(crate::engine::hash_bytes(&self.out), hash_u32s(&[self.consumed as u32, fin_code(self.fin)]))
    }
}

pub fn fin_code(f: Fin) -> u32 {
    match f {
        Fin::StreamEnd => 1,
        Fin::DataError => 2,
        Fin::NeedDict(_) => 3,
        Fin::NeedMore => 4,
        Fin::MemError => 5,
        Fin::StreamError => 6,
    }
}

#[derive(Clone, Debug, Default)]
pub struct IExtra<'a> {
    /// supplied when inflate answers Z_NEED_DICT (zlib) or right after init (raw)
    pub dict: Option<&'a [u8]>,
    pub probe: bool,
    /// expected output size (sizes the ample room); 0 = unknown
    pub expect_out: usize,
    /// do not end the stream; caller continues (not used yet)
    pub max_out: usize,
    /// value written to total_in / total_out right after init (see DExtra::totals_base); the trace is relative to it
    pub totals_base: u64,
}

pub const MODE_NAMES: [&str; 32] = [
    "resume_Head", "resume_Flags", "resume_Time", "resume_Os", "resume_ExLen", "resume_Extra", "resume_Name", "resume_Comment", "resume_HCrc", "resume_Sync", "resume_Mem", "resume_Length", "resume_Type", "resume_TypeDo", "resume_Stored", "resume_CopyBlock",
    "resume_Check", "resume_Len_", "resume_Len", "resume_Lit", "resume_LenExt", "resume_Dist", "resume_DistExt", "resume_Match", "resume_Table", "resume_LenLens", "resume_CodeLens", "resume_DictId", "resume_Dict", "resume_Done", "resume_Bad", "resume_?",
];

pub fn istate_hash(s: &[u32; 8]) -> u64 {
    let bucket = |x: u32, lo: u32, hi: u32| if x == 0 { 0 } else if x < lo { 1 } else if x < hi { 2 } else { 3 };
    hash_u32s(&[s[0], s[1], s[2], s[3], bucket(s[4], 258, 32768), bucket(s[6], 3, 258)])
}

/// inflate with window-bits argument `wb` (as passed to inflateInit2) under schedule `sched`.
pub fn run_inflate<Zx: Z>(wb: i32, input: &[u8], sched: &ISched, env: &Env, ex: &IExtra, mut rec: Option<&mut Case>) -> Result<ITrace, String> {
    unsafe {
        let mut s = env.strm();
        let r = Zx::inflateInit2_(s.p(), wb, Zx::zlibVersion(), STREAM_SIZE);
        if r != Z_OK {
            return Err(format!("{}: inflateInit2({wb}) returned {}", Zx::NAME, rc_name(r)));
        }
        if wb < 0 {
            if let Some(d) = ex.dict {
                let p = env.aux.put(d, env.at_end);
                let r = Zx::inflateSetDictionary(s.p(), p, d.len() as u32);
                if r != Z_OK {
                    Zx::inflateEnd(s.p());
                    return Err(format!("{}: inflateSetDictionary on a fresh raw stream returned {}", Zx::NAME, rc_name(r)));
                }
            }
        }
        if ex.totals_base != 0 {
            s.z.total_in = ex.totals_base as _;
            s.z.total_out = ex.totals_base as _;
        }
        let mut t = ITrace { out: vec![], calls: vec![], fin: Fin::NeedMore, total_in: 0, total_out: 0, consumed: 0, adler: 0, data_type_last: 0, last_ret: 0 };
        let mut pos = 0usize;
        let mut given = 0usize;
        let ample = (ex.expect_out + 1024).max(66000);
        let max_out = if ex.max_out == 0 { 1usize << 26 } else { ex.max_out };
        let call_cap = 8 * input.len() + 64 + 4 * (ex.expect_out.max(1 << 16));
        let mut ncalls = 0usize;
        let mut prev_state: Option<u64> = None;
        let mut step_i = 0usize;
        let mut stalls = 0;
        let mut dict_given = false;
        let mut last_given = usize::MAX;
        loop {
            let (n, room, flush, in_tail) = if step_i < sched.steps.len() {
                let st = sched.steps[step_i];
                step_i += 1;
                (st.n, st.room, st.flush, false)
            } else {
                (sched.tail_in, sched.tail_room, sched.tail_flush, true)
            };
            given = if n == AMPLE { input.len() } else { (given + n).min(input.len()) };
            let room_n = if room == AMPLE { ample } else { room };
            let chunk = &input[pos..given];
            let pin = env.place_in_suffix(chunk, last_given == given);
            last_given = given;
            let pout = env.place_out(room_n);
            s.z.next_in = pin;
            s.z.avail_in = chunk.len() as u32;
            s.z.next_out = pout;
            s.z.avail_out = room_n as u32;
            let (ti0, to0) = (s.z.total_in as u64, s.z.total_out as u64);
            let st_before = if ex.probe && Zx::IS_RS { zlib_rs::inflate::InflateStream::from_stream_ref(s.p() as *const _).map(zlib_rs::inflate::verif_inflate_state) } else { None };
            let ret = Zx::inflate(s.p(), flush);
            ncalls += 1;
            let din = (s.z.next_in as usize).wrapping_sub(pin as usize);
            let dout = (s.z.next_out as usize).wrapping_sub(pout as usize);
            if din > chunk.len() || dout > room_n {
                Zx::inflateEnd(s.p());
                return Err(format!("{}: cursor left the buffer: next_in advanced {din} of {}, next_out advanced {dout} of {room_n}", Zx::NAME, chunk.len()));
            }
            if s.z.avail_in as usize != chunk.len() - din || s.z.avail_out as usize != room_n - dout {
                Zx::inflateEnd(s.p());
                return Err(format!("{}: avail counters inconsistent with cursors (avail_in {}, expected {}; avail_out {}, expected {})", Zx::NAME, s.z.avail_in, chunk.len() - din, s.z.avail_out, room_n - dout));
            }
            if s.z.total_in as u64 != ti0 + din as u64 || s.z.total_out as u64 != to0 + dout as u64 {
                Zx::inflateEnd(s.p());
                return Err(format!("{}: totals do not account for the call (total_in {}->{} with {din}; total_out {}->{} with {dout})", Zx::NAME, ti0, s.z.total_in, to0, s.z.total_out));
            }
            if !matches!(ret, Z_OK | Z_STREAM_END | Z_NEED_DICT | Z_DATA_ERROR | Z_MEM_ERROR | Z_BUF_ERROR | Z_STREAM_ERROR) {
                Zx::inflateEnd(s.p());
                return Err(format!("{}: inflate returned undocumented status {ret}", Zx::NAME));
            }
            if ret == Z_BUF_ERROR && flush != Z_FINISH && (din != 0 || dout != 0) {
                Zx::inflateEnd(s.p());
                return Err(format!("{}: inflate returned Z_BUF_ERROR although the call consumed {din} and produced {dout} bytes", Zx::NAME));
            }
            t.out.extend_from_slice(std::slice::from_raw_parts(pout, dout));
            pos += din;
            t.calls.push(Call { op: 0, flush, ret, din: din as u32, dout: dout as u32 });
            t.data_type_last = s.z.data_type;
            t.last_ret = ret;
            let mut state_changed = false;
            if ex.probe && Zx::IS_RS {
                if let Some(is) = zlib_rs::inflate::InflateStream::from_stream_ref(s.p() as *const _) {
                    let st = zlib_rs::inflate::verif_inflate_state(is);
                    state_changed = st_before.map_or(true, |b| b != st);
                    if let Some(c) = rec.as_deref_mut() {
                        let h = istate_hash(&st);
                        c.count(MODE_NAMES[(st[0] as usize).min(31)], 1);
                        c.state(h);
                        if let Some(p) = prev_state {
                            c.trans(p, h);
                        }
                        prev_state = Some(h);
                    }
                }
            }
            match ret {
                Z_STREAM_END => {
                    t.fin = Fin::StreamEnd;
                    break;
                }
                Z_DATA_ERROR => {
                    t.fin = Fin::DataError;
                    break;
                }
                Z_MEM_ERROR => {
                    t.fin = Fin::MemError;
                    break;
                }
                Z_STREAM_ERROR => {
                    t.fin = Fin::StreamError;
                    break;
                }
                Z_NEED_DICT => {
                    let id = s.z.adler as u32;
                    match ex.dict {
                        Some(d) if !dict_given => {
                            dict_given = true;
                            let p = env.aux.put(d, env.at_end);
                            let r = Zx::inflateSetDictionary(s.p(), p, d.len() as u32);
                            t.calls.push(Call { op: 3, flush: 0, ret: r, din: 0, dout: 0 });
                            if r != Z_OK {
                                t.fin = if r == Z_DATA_ERROR { Fin::DataError } else { Fin::StreamError };
                                t.last_ret = r;
                                break;
                            }
                        }
                        _ => {
                            t.fin = Fin::NeedDict(id);
                            break;
                        }
                    }
                }
                _ => {}
            }
            if t.out.len() > max_out {
                break;
            }
            if ex.probe && Zx::IS_RS && !chunk.is_empty() && room_n > 0 && din == 0 && dout == 0 && !state_changed {
                Zx::inflateEnd(s.p());
                return Err(format!("{}: no progress: inflate(flush={flush}) with {} input bytes and {room_n} bytes of room consumed nothing, produced nothing, changed no decoder state and returned {}", Zx::NAME, chunk.len(), rc_name(ret)));
            }
            if din == 0 && dout == 0 {
                stalls += 1;
            } else {
                stalls = 0;
            }
            // Z_BLOCK / Z_TREES may legally return at block boundaries using only buffered bits
            let limit = if flush == Z_BLOCK || flush == Z_TREES { 40 } else { 1 };
            if in_tail && given == input.len() && room_n > 0 && stalls >= limit {
                t.fin = Fin::NeedMore;
                break;
            }
            if ncalls > call_cap {
                Zx::inflateEnd(s.p());
                return Err(format!("{}: non-termination: {ncalls} inflate calls without a terminal status (input {} bytes, {} out)", Zx::NAME, input.len(), t.out.len()));
            }
        }
        t.total_in = (s.z.total_in as u64).wrapping_sub(ex.totals_base);
        t.total_out = (s.z.total_out as u64).wrapping_sub(ex.totals_base);
        t.consumed = pos;
        t.adler = s.z.adler as u64;
        if t.total_in != pos as u64 || t.total_out != t.out.len() as u64 {
            Zx::inflateEnd(s.p());
            return Err(format!("{}: totals != sums over calls: total_in {} (sum {pos}), total_out {} (sum {})", Zx::NAME, t.total_in, t.total_out, t.out.len()));
        }
        let r = Zx::inflateEnd(s.p());
        if r != Z_OK {
            return Err(format!("{}: inflateEnd returned {}", Zx::NAME, rc_name(r)));
        }
        if let Some(ctl) = &s.ctl {
            if !ctl.live.is_empty() || !ctl.errors.is_empty() {
                return Err(format!("{}: allocator discipline: {} live blocks after inflateEnd, errors {:?}", Zx::NAME, ctl.live.len(), ctl.errors));
            }
        }
        Ok(t)
    }
}

pub fn wb_for(wrap: Wrap, wbits: i32) -> i32 {
    match wrap {
        Wrap::Raw => -wbits,
        Wrap::Zlib => wbits,
        Wrap::Gzip => wbits + 16,
    }
}
