//! One vocabulary for the two C APIs that live in this process: libz-rs-sys (`Rs`, the subject) and
//! zlib-ng 2.3.3 in zlib-compat mode via libz-sys (`Ng`, reference R6). Both use libz-rs-sys's
//! `#[repr(C)]` `z_stream` / `gz_header` (layout-identical to zlib's).

#![allow(non_snake_case)]
#![allow(clippy::missing_safety_doc)]

extern crate libz_sys; // force linking of the vendored zlib-ng

pub use libz_rs_sys::{gzFile, gz_header, in_func, out_func, z_stream};
use std::ffi::{c_char, c_int, c_long, c_uchar, c_uint, c_ulong, c_void};

pub type Off = libz_rs_sys::z_off_t;

macro_rules! zapi {
    ($( fn $name:ident($($a:ident : $t:ty),*) -> $r:ty; )*) => {
        pub trait Z: 'static {
            const NAME: &'static str;
            const IS_RS: bool;
            $( unsafe fn $name($($a: $t),*) -> $r; )*
        }
        pub struct Rs;
        pub struct Ng;
        mod ngffi {
            use super::*;
            extern "C" { $( pub fn $name($($a: $t),*) -> $r; )* }
        }
        impl Z for Rs {
            const NAME: &'static str = "zlib-rs";
            const IS_RS: bool = true;
            $( #[inline] unsafe fn $name($($a: $t),*) -> $r { libz_rs_sys::$name($($a),*) } )*
        }
        impl Z for Ng {
            const NAME: &'static str = "zlib-ng";
            const IS_RS: bool = false;
            $( #[inline] unsafe fn $name($($a: $t),*) -> $r { ngffi::$name($($a),*) } )*
        }
    };
}

zapi! {
    fn zlibVersion() -> *const c_char;
    fn deflateInit_(strm: *mut z_stream, level: c_int, version: *const c_char, stream_size: c_int) -> c_int;
    fn deflateInit2_(strm: *mut z_stream, level: c_int, method: c_int, windowBits: c_int, memLevel: c_int, strategy: c_int, version: *const c_char, stream_size: c_int) -> c_int;
    fn deflate(strm: *mut z_stream, flush: c_int) -> c_int;
    fn deflateEnd(strm: *mut z_stream) -> c_int;
    fn deflateReset(strm: *mut z_stream) -> c_int;
    fn deflateResetKeep(strm: *mut z_stream) -> c_int;
    fn deflateParams(strm: *mut z_stream, level: c_int, strategy: c_int) -> c_int;
    fn deflateTune(strm: *mut z_stream, good_length: c_int, max_lazy: c_int, nice_length: c_int, max_chain: c_int) -> c_int;
    fn deflatePrime(strm: *mut z_stream, bits: c_int, value: c_int) -> c_int;
    fn deflatePending(strm: *mut z_stream, pending: *mut c_uint, bits: *mut c_int) -> c_int;
    fn deflateBound(strm: *mut z_stream, sourceLen: c_ulong) -> c_ulong;
    fn deflateCopy(dest: *mut z_stream, source: *mut z_stream) -> c_int;
    fn deflateSetDictionary(strm: *mut z_stream, dictionary: *const u8, dictLength: c_uint) -> c_int;
    fn deflateGetDictionary(strm: *const z_stream, dictionary: *mut c_uchar, dictLength: *mut c_uint) -> c_int;
    fn deflateSetHeader(strm: *mut z_stream, head: *mut gz_header) -> c_int;
    fn compress(dest: *mut u8, destLen: *mut c_ulong, source: *const u8, sourceLen: c_ulong) -> c_int;
    fn compress2(dest: *mut u8, destLen: *mut c_ulong, source: *const u8, sourceLen: c_ulong, level: c_int) -> c_int;
    fn compressBound(sourceLen: c_ulong) -> c_ulong;
    fn inflateInit_(strm: *mut z_stream, version: *const c_char, stream_size: c_int) -> c_int;
    fn inflateInit2_(strm: *mut z_stream, windowBits: c_int, version: *const c_char, stream_size: c_int) -> c_int;
    fn inflate(strm: *mut z_stream, flush: c_int) -> c_int;
    fn inflateEnd(strm: *mut z_stream) -> c_int;
    fn inflateReset(strm: *mut z_stream) -> c_int;
    fn inflateReset2(strm: *mut z_stream, windowBits: c_int) -> c_int;
    fn inflateResetKeep(strm: *mut z_stream) -> c_int;
    fn inflatePrime(strm: *mut z_stream, bits: c_int, value: c_int) -> c_int;
    fn inflateSync(strm: *mut z_stream) -> c_int;
    fn inflateSyncPoint(strm: *mut z_stream) -> c_int;
    fn inflateValidate(strm: *mut z_stream, check: c_int) -> c_int;
    fn inflateUndermine(strm: *mut z_stream, subvert: c_int) -> c_int;
    fn inflateMark(strm: *const z_stream) -> c_long;
    fn inflateCopy(dest: *mut z_stream, source: *const z_stream) -> c_int;
    fn inflateSetDictionary(strm: *mut z_stream, dictionary: *const u8, dictLength: c_uint) -> c_int;
    fn inflateGetDictionary(strm: *const z_stream, dictionary: *mut c_uchar, dictLength: *mut c_uint) -> c_int;
    fn inflateGetHeader(strm: *mut z_stream, head: *mut gz_header) -> c_int;
    fn inflateCodesUsed(strm: *mut z_stream) -> c_ulong;
    fn inflateBackInit_(strm: *mut z_stream, windowBits: c_int, window: *mut c_uchar, version: *const c_char, stream_size: c_int) -> c_int;
    fn inflateBack(strm: *mut z_stream, in_: Option<in_func>, in_desc: *mut c_void, out: Option<out_func>, out_desc: *mut c_void) -> c_int;
    fn inflateBackEnd(strm: *mut z_stream) -> c_int;
    fn uncompress(dest: *mut u8, destLen: *mut c_ulong, source: *const u8, sourceLen: c_ulong) -> c_int;
    fn uncompress2(dest: *mut u8, destLen: *mut c_ulong, source: *const u8, sourceLen: *mut c_ulong) -> c_int;
    fn adler32(adler: c_ulong, buf: *const u8, len: c_uint) -> c_ulong;
    fn adler32_z(adler: c_ulong, buf: *const u8, len: usize) -> c_ulong;
    fn crc32(crc: c_ulong, buf: *const u8, len: c_uint) -> c_ulong;
    fn crc32_z(crc: c_ulong, buf: *const u8, len: usize) -> c_ulong;
    fn adler32_combine(adler1: c_ulong, adler2: c_ulong, len2: Off) -> c_ulong;
    fn crc32_combine(crc1: c_ulong, crc2: c_ulong, len2: Off) -> c_ulong;
    fn crc32_combine_gen(len2: Off) -> c_ulong;
    fn crc32_combine_op(crc1: c_ulong, crc2: c_ulong, op: c_ulong) -> c_ulong;
    fn gzopen(path: *const c_char, mode: *const c_char) -> gzFile;
    fn gzdopen(fd: c_int, mode: *const c_char) -> gzFile;
    fn gzbuffer(file: gzFile, size: c_uint) -> c_int;
    fn gzread(file: gzFile, buf: *mut c_void, len: c_uint) -> c_int;
    fn gzfread(buf: *mut c_void, size: usize, nitems: usize, file: gzFile) -> usize;
    fn gzwrite(file: gzFile, buf: *const c_void, len: c_uint) -> c_int;
    fn gzfwrite(buf: *const c_void, size: usize, nitems: usize, file: gzFile) -> usize;
    fn gzputc(file: gzFile, c: c_int) -> c_int;
    fn gzputs(file: gzFile, s: *const c_char) -> c_int;
    fn gzgetc(file: gzFile) -> c_int;
    fn gzungetc(c: c_int, file: gzFile) -> c_int;
    fn gzgets(file: gzFile, buf: *mut c_char, len: c_int) -> *mut c_char;
    fn gzflush(file: gzFile, flush: c_int) -> c_int;
    fn gzsetparams(file: gzFile, level: c_int, strategy: c_int) -> c_int;
    fn gzseek(file: gzFile, offset: Off, whence: c_int) -> Off;
    fn gzrewind(file: gzFile) -> c_int;
    fn gztell(file: gzFile) -> Off;
    fn gzoffset(file: gzFile) -> Off;
    fn gzeof(file: gzFile) -> c_int;
    fn gzdirect(file: gzFile) -> c_int;
    fn gzclose(file: gzFile) -> c_int;
    fn gzclose_r(file: gzFile) -> c_int;
    fn gzclose_w(file: gzFile) -> c_int;
    fn gzerror(file: gzFile, errnum: *mut c_int) -> *const c_char;
    fn gzclearerr(file: gzFile) -> ();
}

pub const Z_OK: i32 = 0;
pub const Z_STREAM_END: i32 = 1;
pub const Z_NEED_DICT: i32 = 2;
pub const Z_ERRNO: i32 = -1;
pub const Z_STREAM_ERROR: i32 = -2;
pub const Z_DATA_ERROR: i32 = -3;
pub const Z_MEM_ERROR: i32 = -4;
pub const Z_BUF_ERROR: i32 = -5;
pub const Z_VERSION_ERROR: i32 = -6;

pub const Z_NO_FLUSH: i32 = 0;
pub const Z_PARTIAL_FLUSH: i32 = 1;
pub const Z_SYNC_FLUSH: i32 = 2;
pub const Z_FULL_FLUSH: i32 = 3;
pub const Z_FINISH: i32 = 4;
pub const Z_BLOCK: i32 = 5;
pub const Z_TREES: i32 = 6;

pub const STREAM_SIZE: c_int = std::mem::size_of::<z_stream>() as c_int;

pub fn zeroed_stream() -> Box<z_stream> {
    Box::new(z_stream {
        next_in: std::ptr::null(),
        avail_in: 0,
        total_in: 0,
        next_out: std::ptr::null_mut(),
        avail_out: 0,
        total_out: 0,
        msg: std::ptr::null_mut(),
        state: std::ptr::null_mut(),
        zalloc: None,
        zfree: None,
        opaque: std::ptr::null_mut(),
        data_type: 0,
        adler: 0,
        reserved: 0,
    })
}

pub fn zeroed_header() -> gz_header {
    gz_header {
        text: 0,
        time: 0,
        xflags: 0,
        os: 0,
        extra: std::ptr::null_mut(),
        extra_len: 0,
        extra_max: 0,
        name: std::ptr::null_mut(),
        name_max: 0,
        comment: std::ptr::null_mut(),
        comm_max: 0,
        hcrc: 0,
        done: 0,
    }
}

pub fn rc_name(rc: i32) -> String {
    match rc {
        0 => "Z_OK".into(),
        1 => "Z_STREAM_END".into(),
        2 => "Z_NEED_DICT".into(),
        -1 => "Z_ERRNO".into(),
        -2 => "Z_STREAM_ERROR".into(),
        -3 => "Z_DATA_ERROR".into(),
        -4 => "Z_MEM_ERROR".into(),
        -5 => "Z_BUF_ERROR".into(),
        -6 => "Z_VERSION_ERROR".into(),
        n => format!("rc({n})"),
    }
}

/// A z_stream with a stable address, optionally wired to the guard-paged allocator.
pub struct Strm {
    pub z: Box<z_stream>,
    pub ctl: Option<Box<crate::mem::AllocCtl>>,
}

impl Strm {
    /// default allocator of the respective library (zalloc/zfree NULL)
    pub fn plain() -> Strm {
        Strm { z: zeroed_stream(), ctl: None }
    }
    /// guard-paged, garbage-filling, fault-injecting allocator
    pub fn guarded(garbage: u8) -> Strm {
        let mut ctl = crate::mem::AllocCtl::new(garbage);
        let mut z = zeroed_stream();
        z.zalloc = Some(crate::mem::v_zalloc);
        z.zfree = Some(crate::mem::v_zfree);
        z.opaque = ctl.opaque();
        Strm { z, ctl: Some(ctl) }
    }
    /// malloc/free with every block filled with `fill` first: what the library reads before writing it is then
    /// the same in every execution (and can be varied on purpose)
    pub fn filled(fill: u8) -> Strm {
        unsafe extern "C" fn fz_alloc(opaque: *mut std::ffi::c_void, items: u32, size: u32) -> *mut std::ffi::c_void {
            let n = items as usize * size as usize;
            let p = libc::malloc(n.max(1));
            if !p.is_null() {
                std::ptr::write_bytes(p as *mut u8, opaque as usize as u8, n);
            }
            p
        }
        unsafe extern "C" fn fz_free(_opaque: *mut std::ffi::c_void, p: *mut std::ffi::c_void) {
            libc::free(p)
        }
        let mut z = zeroed_stream();
        z.zalloc = Some(fz_alloc);
        z.zfree = Some(fz_free);
        z.opaque = fill as usize as *mut std::ffi::c_void;
        Strm { z, ctl: None }
    }
    #[inline]
    pub fn p(&mut self) -> *mut z_stream {
        &mut *self.z as *mut z_stream
    }
}
