//! The shared compression-side families of DESIGN.md §6 C01 (a)-(d): configuration × input × schedule.
//! Every deflate-side check (C01, C05, C06, C07, C10, C11, C12, C14, C15) enumerates these with its
//! own oracle.

use crate::api::*;
use crate::drv::*;
use crate::engine::Ctx;
use crate::inputs::*;

pub struct DItem<'a> {
    pub fam: &'static str,
    pub cfg: DCfg,
    pub inp: &'a Named,
    pub sched: &'a DSched,
    /// index of the schedule within its (cfg,input) row; 0 is the default (no deviation)
    pub sched_idx: usize,
}

impl DItem<'_> {
    pub fn desc(&self) -> String {
        format!("cfg[{}] input[{} {}] sched[{}]", self.cfg.desc(), self.inp.name, crate::engine::bdesc(&self.inp.data), self.sched.desc())
    }
}

fn feed(n: usize, room: usize, flush: i32) -> DStep {
    DStep::Feed { n, room, flush }
}

/// SD(1) (+ a slice of SD(2)) for an input of length n under cfg; `positions` are the split points.
pub fn schedules(cfg: &DCfg, n: usize, positions: &[usize], flush_positions: &[usize], rich: bool) -> Vec<DSched> {
    let pend = cfg.lit_bufsize() * 4;
    let mut v = vec![DSched::one_shot()];
    // one deviation: input split at i (NoFlush)
    for &i in positions {
        if i < n || (i == n && n > 0) {
            v.push(DSched { steps: vec![feed(i, AMPLE, Z_NO_FLUSH)], tail_room: AMPLE });
        }
    }
    // one deviation: a flush at i
    for &i in flush_positions {
        if i <= n {
            for f in [Z_PARTIAL_FLUSH, Z_SYNC_FLUSH, Z_FULL_FLUSH, Z_BLOCK] {
                v.push(DSched { steps: vec![feed(i, AMPLE, f)], tail_room: AMPLE });
            }
        }
    }
    // one deviation: bounded output room for all calls
    let mut rooms = vec![1usize, 2, 3, 5, 8, 9];
    if rich {
        rooms.extend([pend - 1, pend, pend + 1]);
    } else {
        rooms.push(pend + 1);
    }
    for &r in &rooms {
        v.push(DSched { steps: vec![], tail_room: r });
    }
    // bounded room for the first call only
    for &r in &[1usize, 9] {
        v.push(DSched { steps: vec![feed(n, r, Z_NO_FLUSH)], tail_room: AMPLE });
    }
    // input in 1-byte pieces (every split at once) for short inputs
    if n > 1 && n <= 64 {
        v.push(DSched { steps: (0..n).map(|_| feed(1, AMPLE, Z_NO_FLUSH)).collect(), tail_room: AMPLE });
        v.push(DSched { steps: (0..n).map(|_| feed(1, 1, Z_NO_FLUSH)).collect(), tail_room: 1 });
    }
    // parameter change at a split: two level changes, plus strategy-only changes at the same level
    // (the algorithm is picked by strategy first: Huffman-only / RLE), tune at a split
    let base: [(i32, i32); 2] = if cfg.level == 0 { [(6, 0), (1, 2)] } else if cfg.level < 4 { [(9, 0), (0, 0)] } else { [(1, 0), (0, 3)] };
    let lv = if cfg.level < 0 { 6 } else { cfg.level };
    let targets: [(i32, i32); 4] = [base[0], base[1], (lv, if cfg.strategy == 2 { 0 } else { 2 }), (lv, if cfg.strategy == 3 { 1 } else { 3 })];
    for &i in flush_positions.iter().take(if rich { usize::MAX } else { 5 }) {
        if i <= n {
            for (l, st) in targets {
                v.push(DSched { steps: vec![feed(i, AMPLE, Z_NO_FLUSH), DStep::Params { level: l, strategy: st, room: AMPLE }], tail_room: AMPLE });
            }
            v.push(DSched { steps: vec![feed(i, AMPLE, Z_NO_FLUSH), DStep::Tune(4, 4, 8, 4)], tail_room: AMPLE });
        }
    }
    // two deviations: split + flush at a later split; flush twice; flush starved of output
    // (the first position and, when that is 0, also the first position with some input before it)
    let mut firsts: Vec<usize> = flush_positions.first().copied().into_iter().collect();
    if let Some(&p) = flush_positions.iter().find(|&&x| x > 0) {
        if !firsts.contains(&p) {
            firsts.push(p);
        }
    }
    for a in firsts {
        let Some(&b) = flush_positions.last() else { continue };
        if a < b && b <= n {
            for f in [Z_SYNC_FLUSH, Z_FULL_FLUSH, Z_PARTIAL_FLUSH] {
                v.push(DSched { steps: vec![feed(a, AMPLE, Z_NO_FLUSH), feed(b - a, AMPLE, f)], tail_room: AMPLE });
                v.push(DSched { steps: vec![feed(a, AMPLE, f), feed(0, AMPLE, f)], tail_room: AMPLE });
                v.push(DSched { steps: vec![feed(a, 1, f)], tail_room: 5 });
                v.push(DSched { steps: vec![feed(a, AMPLE, f), feed(b - a, 2, f)], tail_room: AMPLE });
            }
            let (l, st) = targets[0];
            v.push(DSched { steps: vec![feed(a, AMPLE, Z_SYNC_FLUSH), DStep::Params { level: l, strategy: st, room: AMPLE }, feed(b - a, AMPLE, Z_BLOCK)], tail_room: AMPLE });
            v.push(DSched { steps: vec![feed(a, 3, Z_NO_FLUSH), DStep::Params { level: l, strategy: st, room: 2 }], tail_room: 7 });
        }
    }
    // flush escalation / de-escalation with no new input: after a flush of kind a at the first flush position, a
    // call with no input and a flush of kind b, for every ordered pair (the second call must carry out b when b
    // ranks above a; see the driver's buffer-error rule)
    if n <= 4096 {
        if let Some(&a) = flush_positions.iter().find(|&&x| x > 0 && x <= n).or(flush_positions.first()) {
            let kinds = [Z_NO_FLUSH, Z_BLOCK, Z_PARTIAL_FLUSH, Z_SYNC_FLUSH, Z_FULL_FLUSH];
            for fa in kinds {
                for fb in kinds {
                    if fa != fb && fb != Z_NO_FLUSH {
                        v.push(DSched { steps: vec![feed(a.min(n), AMPLE, fa), feed(0, AMPLE, fb)], tail_room: AMPLE });
                    }
                }
            }
        }
    }
    // two parameter changes (through stored and back / away and back) with data in between, and a parameter
    // change followed by output-limited calls (stored blocks copied straight from the input with leftover bits)
    let away: (i32, i32) = if cfg.level == 0 { (6, 0) } else { (0, 0) };
    let back: (i32, i32) = (lv, cfg.strategy);
    // (only for inputs that can fill something: on tiny inputs these are covered by the single-deviation schedules)
    let mids: Vec<usize> = if n > 16 { flush_positions.iter().copied().filter(|&x| x > 0 && x < n).collect() } else { vec![] };
    let w = cfg.w_size();
    for (ai, &a) in mids.iter().enumerate() {
        // second change at the next lattice positions and at the distances that make a stored-phase call
        // slide the window exactly once (used < w_size, window nearly full)
        let mut bs: Vec<usize> = mids.iter().skip(ai + 1).step_by(if rich { 1 } else { 2 }).copied().collect();
        bs.extend([a + w - 1, a + w - 70, a + 3 * w / 4, a + w / 2]);
        bs.retain(|&b| b > a && b < n);
        bs.sort();
        bs.dedup();
        for &b in &bs {
            for f in [Z_NO_FLUSH, Z_SYNC_FLUSH] {
                v.push(DSched { steps: vec![feed(a, AMPLE, Z_NO_FLUSH), DStep::Params { level: away.0, strategy: away.1, room: AMPLE }, feed(b - a, AMPLE, f), DStep::Params { level: back.0, strategy: back.1, room: AMPLE }], tail_room: AMPLE });
            }
        }
        for r in [pend + 1, pend + 90, 2 * pend] {
            v.push(DSched { steps: vec![feed(a, AMPLE, Z_NO_FLUSH), DStep::Params { level: away.0, strategy: away.1, room: AMPLE }], tail_room: r });
            v.push(DSched { steps: vec![feed(a, AMPLE, Z_NO_FLUSH), DStep::Params { level: away.0, strategy: away.1, room: AMPLE }, feed(n, r, Z_NO_FLUSH)], tail_room: AMPLE });
        }
    }
    {
        {
        }
    }
    v
}

pub struct Fams {
    pub tiny_inputs: Vec<Named>,
    pub tiny_cfgs: Vec<DCfg>,
    pub shape_sets: Vec<(Vec<DCfg>, Vec<Named>, usize, usize)>,
    pub big_cfgs: Vec<DCfg>,
    pub big_inputs: Vec<Named>,
    /// every input length 0..=N of a few data kinds (exact-size alignments of the pending buffer and of the bit
    /// buffer at the end of the stream), small window and memLevel 1
    pub sweep_cfgs: Vec<DCfg>,
    pub sweep_inputs: Vec<Named>,
    pub align_cfgs: Vec<DCfg>,
    pub align_inputs: Vec<Named>,
    /// inputs sitting exactly at the match finder's tuning thresholds (good_match, max_lazy, nice_length, max_chain)
    pub thresh_cfgs: Vec<DCfg>,
    pub thresh_inputs: Vec<Named>,
    pub rich: bool,
}

/// all strings over 2 / 3 / 4 symbols up to a length per alphabet; `depth` 0: quick tier, 1: thorough tier of the
/// checks that share the families, 2: thorough tier of C01 (the deepest)
pub fn tiny_set_depth(depth: u8) -> Vec<Named> {
    let (l2, l3, l4) = match depth {
        0 => (7, 4, 3),
        1 => (10, 6, 5),
        _ => (12, 8, 6),
    };
    let mut v = vec![];
    let mut seen = std::collections::HashSet::new();
    for (alpha, l) in [(&b"ab"[..], l2), (&b"abc"[..], l3), (&b"a\x00\xffz"[..], l4)] {
        for s in tiny_strings(alpha, l) {
            if seen.insert(s.clone()) {
                v.push(Named { name: format!("tiny{}", alpha.len()), data: s });
            }
        }
    }
    v
}

pub fn build(quick: bool) -> Fams {
    build_depth(quick, if quick { 0 } else { 1 })
}

/// `tiny_depth`: see tiny_set_depth
pub fn build_depth(quick: bool, tiny_depth: u8) -> Fams {
    let mut tiny_cfgs = vec![];
    for wrap in Wrap::ALL {
        for (wbits, mem_level) in [(9, 1), (15, 8)] {
            for strategy in 0..5 {
                for level in 0..=9 {
                    tiny_cfgs.push(DCfg { level, strategy, wbits, mem_level, wrap });
                }
            }
        }
    }
    let mut shape_sets = vec![];
    for (wbits, ml) in [(9, 1), (9, 2), (10, 1)] {
        let mut cfgs = vec![];
        for wrap in Wrap::ALL {
            for strategy in 0..5 {
                for level in 0..=9 {
                    cfgs.push(DCfg { level, strategy, wbits, mem_level: ml, wrap });
                }
            }
        }
        let w = 1usize << wbits;
        let m = 1usize << (ml + 6);
        shape_sets.push((cfgs, shapes(w, m, !quick), w, m));
    }
    let mut big_cfgs = vec![];
    for wrap in Wrap::ALL {
        for (wbits, ml) in [(15, 8), (15, 9), (15, 1)] {
            for strategy in 0..5 {
                for level in [0, 1, 2, 3, 4, 6, 9] {
                    if quick && wrap != Wrap::Zlib && ml != 8 {
                        continue;
                    }
                    big_cfgs.push(DCfg { level, strategy, wbits, mem_level: ml, wrap });
                }
            }
        }
    }
    let w = 32768;
    let mut big_inputs = vec![
        Named { name: "text(100000)".into(), data: text(17, 100_000) },
        Named { name: "lcg(70000)".into(), data: lcg_bytes(3, 70_000) },
        Named { name: "rep(0x00,98321)".into(), data: rep(0, 3 * w + 17) },
        Named { name: "rep(0xff,66000)".into(), data: rep(0xff, 66_000) },
        Named { name: "periodic(32506,66000)".into(), data: periodic(w - 262, 66_000) },
        Named { name: "far(32506)".into(), data: far(w - 262, 300) },
        Named { name: "far(32507)".into(), data: far(w - 261, 300) },
        Named { name: "far(32768)".into(), data: far(w, 300) },
    ];
    let mut mix = text(2, 40_000);
    mix.extend(lcg_bytes(9, 30_000));
    mix.extend(rep(7, 20_000));
    mix.extend(text(2, 40_000));
    big_inputs.push(Named { name: format!("mix(text,lcg,rep,text;{})", mix.len()), data: mix });
    // skewed symbol histograms: Huffman trees deeper than the 15-bit limit (literal and distance trees), with
    // several shapes of the deepest levels
    for (n, ones) in if quick { vec![(16usize, 0usize), (18, 0), (18, 4), (20, 3)] } else { vec![(15, 0), (16, 0), (16, 2), (17, 0), (17, 3), (18, 0), (18, 2), (18, 4), (18, 6), (19, 5), (20, 0), (20, 3), (21, 6)] } {
        big_inputs.push(Named { name: format!("fibhist({n},{ones})"), data: fib_hist(n, ones, 0x30) });
    }
    big_inputs.push(Named { name: "fibhist(18,2)@ninebit".into(), data: fib_hist(18, 2, 200) });
    big_inputs.push(Named { name: "distfib(17)".into(), data: dist_fib(17) });
    // more incompressible data than the largest pending buffer (128 KiB at memLevel 9) holds: single drains of >= 64 KiB
    // (enumerated with the memLevel-9 configurations only)
    big_inputs.push(Named { name: "lcg(200000)".into(), data: lcg_bytes(21, 200_000) });
    if !quick {
        big_inputs.push(Named { name: "distfib(19)".into(), data: dist_fib(19) });
    }
    if !quick {
        big_inputs.push(Named { name: "periodic(258,131073)".into(), data: periodic(258, 131_073) });
        big_inputs.push(Named { name: "text(200000)".into(), data: text(5, 200_000) });
        big_inputs.push(Named { name: "ninebit(65537)".into(), data: nine_bit(65_537) });
    }
    let mut sweep_cfgs = vec![];
    for level in 0..=9 {
        sweep_cfgs.push(DCfg { level, strategy: 0, wbits: 9, mem_level: 1, wrap: Wrap::Zlib });
    }
    for (level, strategy, wrap) in [(6, 1, Wrap::Raw), (6, 2, Wrap::Raw), (6, 3, Wrap::Gzip), (6, 4, Wrap::Raw), (1, 4, Wrap::Gzip), (1, 0, Wrap::Raw), (9, 0, Wrap::Gzip)] {
        sweep_cfgs.push(DCfg { level, strategy, wbits: 9, mem_level: 1, wrap });
    }
    if !quick {
        for level in [1, 4, 6, 8] {
            sweep_cfgs.push(DCfg { level, strategy: 0, wbits: 10, mem_level: 2, wrap: Wrap::Raw });
        }
    }
    let top = if quick { 1100 } else { 2300 };
    let base7 = noise7(31, top);
    let base_t = text(23, top);
    let base_m: Vec<u8> = noise7(5, top).iter().enumerate().map(|(i, &b)| if i % 100 >= 95 { 144 + b % 100 } else { b }).collect();
    let mut sweep_inputs = vec![];
    for n in 0..=top {
        sweep_inputs.push(Named { name: format!("noise7[..{n}]"), data: base7[..n].to_vec() });
        sweep_inputs.push(Named { name: format!("text[..{n}]"), data: base_t[..n].to_vec() });
        if !quick || n % 2 == 0 {
            sweep_inputs.push(Named { name: format!("noise7+ninebit[..{n}]"), data: base_m[..n].to_vec() });
        }
    }
    // every bit alignment of the end of the stream for every length: k = 1..7 nine-bit literals in front of
    // 8-bit noise (static codes: 8n + k bits), on a few configurations only
    let mut align_inputs = vec![];
    for k in 1..=7usize {
        for n in k..=top {
            if quick && n > 1100 {
                break;
            }
            let mut d = base7[..n].to_vec();
            for b in d.iter_mut().take(k) {
                *b = 0xF0 | (*b & 0x0f);
            }
            align_inputs.push(Named { name: format!("{k}xninebit+noise7[..{n}]"), data: d });
        }
    }
    let align_cfgs: Vec<DCfg> = [(1, 0, Wrap::Zlib), (1, 4, Wrap::Raw), (2, 0, Wrap::Raw), (6, 4, Wrap::Zlib), (9, 2, Wrap::Raw)].iter().map(|&(level, strategy, wrap)| DCfg { level, strategy, wbits: 9, mem_level: 1, wrap }).collect();
    let mut thresh_inputs = vec![];
    let prevs: Vec<usize> = if quick { vec![4, 8, 16, 32] } else { vec![3, 4, 5, 7, 8, 9, 15, 16, 17, 31, 32, 33, 127, 128, 129, 257] };
    let decoy_counts: Vec<usize> = if quick { vec![3, 4, 5, 8, 17, 33, 64, 70, 129, 257, 300] } else { vec![0, 1, 3, 4, 5, 7, 8, 9, 15, 16, 17, 31, 32, 33, 63, 64, 65, 70, 127, 128, 129, 255, 256, 257, 300, 1023, 1024, 1025] };
    for &pl in &prevs {
        for ll in [pl + 1, pl + 20, 140, 258] {
            if ll <= pl {
                continue;
            }
            for &dc in &decoy_counts {
                thresh_inputs.push(Named { name: format!("chain_threshold(prev={pl},long={ll},decoys={dc})"), data: chain_threshold(pl, ll, dc) });
            }
        }
    }
    // nice_length of every level (8, 16, 32, 128, 258) +- 1: a near candidate of exactly that many bytes and a longer, older one
    for k in [7usize, 8, 9, 15, 16, 17, 31, 32, 33, 127, 128, 129, 255, 256, 257] {
        for far in [k + 1, 258] {
            if far > k && far <= 258 {
                thresh_inputs.push(Named { name: format!("nice_threshold(near={k},far={far})"), data: nice_threshold(k, far) });
            }
        }
    }
    let mut thresh_cfgs = vec![];
    for level in 1..=9 {
        thresh_cfgs.push(DCfg { level, strategy: 0, wbits: 15, mem_level: 8, wrap: Wrap::Raw });
    }
    for level in [4, 6, 7, 9] {
        thresh_cfgs.push(DCfg { level, strategy: 1, wbits: 15, mem_level: 8, wrap: Wrap::Zlib });
    }
    Fams { tiny_inputs: tiny_set_depth(tiny_depth), tiny_cfgs, shape_sets, big_cfgs, big_inputs, sweep_cfgs, sweep_inputs, align_cfgs, align_inputs, thresh_cfgs, thresh_inputs, rich: !quick }
}

fn level_class(level: i32) -> i32 {
    if level == 0 {
        0
    } else if level < 4 {
        1
    } else {
        2
    }
}

/// schedules depend on the configuration only through (mem_level, level class): cache per input row
struct SchedCache {
    map: std::collections::HashMap<(i32, i32), std::rc::Rc<Vec<DSched>>>,
}

impl SchedCache {
    fn new() -> Self {
        SchedCache { map: Default::default() }
    }
    fn get(&mut self, cfg: &DCfg, n: usize, pos: &[usize], fpos: &[usize], rich: bool) -> std::rc::Rc<Vec<DSched>> {
        self.map.entry((cfg.mem_level, level_class(cfg.level))).or_insert_with(|| std::rc::Rc::new(schedules(cfg, n, pos, fpos, rich))).clone()
    }
}

/// which families a check wants
#[derive(Clone, Copy)]
pub struct Sel {
    pub tiny: bool,
    pub shapes: bool,
    pub big: bool,
    /// the every-length sweep
    pub sweep: bool,
    /// keep only every k-th (cfg,input) row of the shape family (1 = all); rows are still complete
    pub shape_cfg_stride: usize,
}

impl Sel {
    pub fn all() -> Sel {
        Sel { tiny: true, shapes: true, big: true, sweep: true, shape_cfg_stride: 1 }
    }
}

/// Enumerate every (cfg, input, schedule) item of the selected families in canonical order.
pub fn for_each<F: FnMut(&mut Ctx, &DItem)>(ctx: &mut Ctx, fams: &Fams, sel: Sel, mut f: F) {
    // development aid only (never set by ./check): restrict to one family for timing
    let only = std::env::var("ZVERIF_ONLY_FAM").ok();
    let sel = Sel { tiny: sel.tiny && only.as_deref().map_or(true, |o| o == "tiny"), shapes: sel.shapes && only.as_deref().map_or(true, |o| o == "shape"), big: sel.big && only.as_deref().map_or(true, |o| o == "big"), sweep: sel.sweep && only.as_deref().map_or(true, |o| o == "sweep"), ..sel };
    if sel.tiny {
        for inp in &fams.tiny_inputs {
            let n = inp.data.len();
            let pos: Vec<usize> = (1..n).collect();
            let fpos: Vec<usize> = (0..=n).collect();
            let mut cache = SchedCache::new();
            for cfg in &fams.tiny_cfgs {
                let scheds = cache.get(cfg, n, &pos, &fpos, fams.rich);
                for (k, sched) in scheds.iter().enumerate() {
                    f(ctx, &DItem { fam: "tiny", cfg: *cfg, inp, sched, sched_idx: k });
                }
            }
        }
    }
    if sel.shapes {
        for (cfgs, inputs, w, m) in &fams.shape_sets {
            let (w, m) = (*w, *m);
            for inp in inputs {
                let n = inp.data.len();
                let lat = lattice(n, w, m);
                let pos: Vec<usize> = if fams.rich && n <= 2 * w + 200 { (1..n).collect() } else { lat.iter().copied().filter(|&x| x > 0).collect() };
                let mut fpos: Vec<usize> = vec![1, 3, m - 1, m, m + 1, w, w + (w - 262), 2 * w - 262, 2 * w, n / 2, n];
                fpos.retain(|&x| x <= n);
                fpos.sort();
                fpos.dedup();
                let mut cache = SchedCache::new();
                for (ci, cfg) in cfgs.iter().enumerate() {
                    if ci % sel.shape_cfg_stride != 0 {
                        continue;
                    }
                    let scheds = cache.get(cfg, n, &pos, &fpos, fams.rich);
                    for (k, sched) in scheds.iter().enumerate() {
                        f(ctx, &DItem { fam: "shape", cfg: *cfg, inp, sched, sched_idx: k });
                    }
                }
            }
        }
    }
    if sel.sweep {
        let scheds: Vec<DSched> = vec![
            DSched::one_shot(),
            DSched { steps: vec![], tail_room: 1 },
            DSched { steps: vec![], tail_room: 7 },
            DSched { steps: vec![], tail_room: 16 },
            DSched { steps: vec![], tail_room: 100 },
            DSched { steps: vec![feed(usize::MAX / 2, AMPLE, Z_SYNC_FLUSH)], tail_room: AMPLE },
            DSched { steps: vec![feed(usize::MAX / 2, 16, Z_NO_FLUSH)], tail_room: 16 },
        ];
        for inp in &fams.sweep_inputs {
            for cfg in &fams.sweep_cfgs {
                for (k, sched) in scheds.iter().enumerate() {
                    f(ctx, &DItem { fam: "sweep", cfg: *cfg, inp, sched, sched_idx: k });
                }
            }
        }
        for inp in &fams.align_inputs {
            for cfg in &fams.align_cfgs {
                for (k, sched) in scheds.iter().enumerate() {
                    f(ctx, &DItem { fam: "sweep", cfg: *cfg, inp, sched, sched_idx: k });
                }
            }
        }
        let one = [DSched::one_shot()];
        for inp in &fams.thresh_inputs {
            for cfg in &fams.thresh_cfgs {
                for (k, sched) in one.iter().enumerate() {
                    f(ctx, &DItem { fam: "threshold", cfg: *cfg, inp, sched, sched_idx: k });
                }
            }
        }
    }
    if sel.big {
        for inp in &fams.big_inputs {
            let n = inp.data.len();
            let w = 32768usize;
            for cfg in &fams.big_cfgs {
                if inp.name == "lcg(200000)" && cfg.mem_level != 9 {
                    continue;
                }
                let m = cfg.lit_bufsize();
                let mut pos: Vec<usize> = vec![1, m - 1, m, w - 1, w, w + (w - 262), w + (w - 262) + 1, 2 * w - 262, 2 * w, 65535, 65536, n - 1];
                pos.retain(|&x| x > 0 && x < n);
                pos.sort();
                pos.dedup();
                if !fams.rich {
                    pos = pos.into_iter().step_by(2).collect();
                }
                let mut fpos: Vec<usize> = vec![m, w + (w - 262), n / 2];
                fpos.retain(|&x| x <= n);
                fpos.sort();
                fpos.dedup();
                let scheds = schedules(cfg, n, &pos, &fpos, fams.rich);
                for (k, sched) in scheds.iter().enumerate() {
                    // tiny output rooms on 100 KiB inputs cost 10^5 calls each: keep rooms >= 5 here
                    if sched.tail_room != AMPLE && sched.tail_room < 5 {
                        continue;
                    }
                    f(ctx, &DItem { fam: "big", cfg: *cfg, inp, sched, sched_idx: k });
                }
            }
        }
    }
}
