//! Families for preset dictionaries (C13) and gzip header metadata (C20), shared with C05/C12.

use crate::drv::*;
use crate::inputs::*;
use crate::refs::wrap::GzFields;

pub struct DictRow {
    pub cfg: DCfg,
    pub dict: Named,
    pub input: Named,
    pub sched: DSched,
}

impl DictRow {
    pub fn desc(&self) -> String {
        format!("cfg[{}] dict[{} {}] input[{} {}] sched[{}]", self.cfg.desc(), self.dict.name, crate::engine::bdesc(&self.dict.data), self.input.name, crate::engine::bdesc(&self.input.data), self.sched.desc())
    }
}

pub fn dict_rows(quick: bool) -> Vec<DictRow> {
    let mut rows = vec![];
    let wbs: &[i32] = if quick { &[9, 15] } else { &[9, 10, 11, 12, 13, 14, 15] };
    for &wbits in wbs {
        let w = 1usize << wbits;
        let mut dlens = vec![0usize, 1, 2, 3, 4, 258, w - 263, w - 262, w - 261, w - 1, w, w + 1, 2 * w - 1, 2 * w, 2 * w + 1, 3 * w];
        if quick && wbits == 15 {
            dlens = vec![3, w - 262, w, w + 1, 2 * w + 1];
        }
        for &dl in &dlens {
            let dict = Named { name: format!("textdict({dl})"), data: text(41, dl) };
            // related input: repeats the tail of the dictionary, then new text
            let tail = &dict.data[dict.data.len().saturating_sub(300)..];
            let mut rel = tail.to_vec();
            rel.extend(text(8, if wbits == 15 && quick { 600 } else { w + 300 }));
            rel.extend_from_slice(&dict.data[..dict.data.len().min(40)]);
            let inputs = [Named { name: format!("related({})", rel.len()), data: rel }, Named { name: "lcg(700)".into(), data: lcg_bytes(77, 700) }];
            let levels: &[i32] = if quick { &[0, 1, 2, 4, 6, 9] } else { &[0, 1, 2, 3, 4, 5, 6, 7, 8, 9] };
            for wrap in [Wrap::Raw, Wrap::Zlib] {
                for &level in levels {
                    for mem_level in if quick { vec![1, 8] } else { vec![1, 2, 8, 9] } {
                        if quick && mem_level == 8 && level % 2 == 1 {
                            continue;
                        }
                        let cfg = DCfg { level, strategy: 0, wbits, mem_level, wrap };
                        for inp in &inputs {
                            let n = inp.data.len();
                            let scheds = [
                                DSched::one_shot(),
                                DSched { steps: vec![DStep::Feed { n: n / 2, room: AMPLE, flush: 2 }], tail_room: AMPLE },
                                DSched { steps: vec![DStep::Feed { n: 1, room: AMPLE, flush: 0 }], tail_room: 9 },
                            ];
                            for s in scheds {
                                rows.push(DictRow { cfg, dict: dict.clone(), input: inp.clone(), sched: s });
                            }
                        }
                    }
                }
            }
        }
    }
    rows
}

pub struct HdrRow {
    pub cfg: DCfg,
    pub gz: GzFields,
    pub sched: DSched,
}

impl HdrRow {
    pub fn desc(&self) -> String {
        let l = |o: &Option<Vec<u8>>| o.as_ref().map_or("NULL".to_string(), |v| v.len().to_string());
        format!(
            "cfg[{}] gzhdr[text={} time={} os={} extra={} name={} comment={} hcrc={}] sched[{}]",
            self.cfg.desc(),
            self.gz.text as u8,
            self.gz.mtime,
            self.gz.os,
            l(&self.gz.extra),
            l(&self.gz.name),
            l(&self.gz.comment),
            self.gz.hcrc as u8,
            self.sched.desc()
        )
    }
}

fn field(len: Option<usize>, seed: u32, cstr: bool) -> Option<Vec<u8>> {
    len.map(|n| {
        let mut g = Lcg(seed);
        (0..n).map(|_| if cstr { 1 + (g.next() % 255) as u8 } else { (g.next() >> 3) as u8 }).collect()
    })
}

pub fn field_lens(quick: bool, max_extra: bool) -> Vec<Option<usize>> {
    let mut v = vec![None, Some(0), Some(1), Some(5), Some(600)];
    if !quick {
        v.push(Some(if max_extra { 65535 } else { 5000 }));
    }
    v
}

pub fn hdr_fields(quick: bool) -> Vec<GzFields> {
    let mut v = vec![];
    let basics = [(false, 0u32, 3u8), (true, 1, 0), (true, u32::MAX, 255)];
    for hcrc in [false, true] {
        for &e in &field_lens(quick, true) {
            for &n in &field_lens(quick, false) {
                for &c in &field_lens(quick, false) {
                    for (bi, &(text, mtime, os)) in basics.iter().enumerate() {
                        if quick && bi != (e.unwrap_or(0) + n.unwrap_or(1) + c.unwrap_or(2)) % 3 {
                            continue;
                        }
                        v.push(GzFields { text, mtime, xfl: 0, os, extra: field(e, 5, false), name: field(n, 6, true), comment: field(c, 7, true), hcrc, hcrc_val: 0 });
                    }
                }
            }
        }
    }
    v
}

pub fn hdr_rows(quick: bool) -> Vec<HdrRow> {
    let mut rows = vec![];
    let fields = hdr_fields(quick);
    for mem_level in [1, 2, 8] {
        let pend = (1usize << (mem_level + 6)) * 4;
        for gz in &fields {
            let hl = gz.write().len();
            let mut rooms = vec![AMPLE, 1, 7, 100];
            if !quick || hl > 400 {
                rooms.extend([pend - 1, pend, pend + 1]);
            }
            for &room in &rooms {
                let cfg = DCfg { level: 6, strategy: 0, wbits: 15, mem_level, wrap: Wrap::Gzip };
                rows.push(HdrRow { cfg, gz: gz.clone(), sched: DSched { steps: vec![], tail_room: room } });
            }
            // bounded room at the first call only, then ample; and a sync flush with no input first
            if !quick || mem_level == 1 {
                for first in [1usize, 9, 10, 11, 12, 13, 40, pend - 1, pend + 1] {
                    let cfg = DCfg { level: 1, strategy: 0, wbits: 9, mem_level, wrap: Wrap::Gzip };
                    rows.push(HdrRow { cfg, gz: gz.clone(), sched: DSched { steps: vec![DStep::Feed { n: 0, room: first, flush: 0 }], tail_room: AMPLE } });
                }
                let cfg = DCfg { level: 0, strategy: 0, wbits: 9, mem_level, wrap: Wrap::Gzip };
                rows.push(HdrRow { cfg, gz: gz.clone(), sched: DSched { steps: vec![DStep::Feed { n: 0, room: 33, flush: 2 }], tail_room: 64 } });
            }
        }
    }
    // header lengths sweeping across the pending-buffer capacity (512 bytes at memLevel 1) with a header CRC and
    // output rooms that leave the buffer partly drained: every fill level of the pending buffer at the moment the
    // two CRC bytes are due, in particular exactly 0, 1 and 2 free bytes
    let name_range: Vec<usize> = if quick { (488..=530).collect() } else { (470..=560).collect() };
    for nl in name_range {
        for cl in [None, Some(3usize)] {
            let gz = GzFields { text: false, mtime: 7, xfl: 0, os: 3, extra: None, name: field(Some(nl), 6, true), comment: field(cl, 7, true), hcrc: true, hcrc_val: if nl % 3 == 0 { -1 } else { 0 } };
            for room in [1usize, 2, 3, 5, 7, 100, 509, 510, 511] {
                let cfg = DCfg { level: 6, strategy: 0, wbits: 15, mem_level: 1, wrap: Wrap::Gzip };
                rows.push(HdrRow { cfg, gz: gz.clone(), sched: DSched { steps: vec![], tail_room: room } });
                rows.push(HdrRow { cfg, gz: gz.clone(), sched: DSched { steps: vec![DStep::Feed { n: 0, room, flush: 0 }], tail_room: AMPLE } });
            }
        }
    }
    rows
}
