//! Z-gen: compressed-stream corpus built with R4 (ground truth by construction) and its
//! single-fault mutation families. Shared by the decoder-side checks C02 C03 C04 C08 C19.

use crate::inputs::*;
use crate::refs::builder::*;
use crate::refs::wrap as r3;

#[derive(Clone, Debug)]
pub struct Gen {
    pub name: String,
    /// raw deflate bytes
    pub raw: Vec<u8>,
    /// meaning by construction (None: invalid by construction)
    pub expected: Option<Vec<u8>>,
    pub max_dist: usize,
    /// members of a position sweep: enumerated intact (raw and zlib) with truncations only, no bit flips
    pub light: bool,
}

fn lits(s: &[u8]) -> Vec<Tok> {
    s.iter().map(|&b| Tok::Lit(b)).collect()
}

fn gen(name: String, plans: &[Plan]) -> Gen {
    Gen { name, raw: build(plans), expected: expected(plans, &[]), max_dist: max_distance(plans), light: false }
}

/// explicit code-length sets (H-codes): complete canonical codes on few symbols, incl. extremes
pub fn hcodes() -> Vec<(String, Vec<u8>, Vec<u8>, Vec<Tok>)> {
    let mut v = vec![];
    let multisets: Vec<Vec<u8>> = vec![vec![1, 1], vec![1, 2, 2], vec![2, 2, 2, 2], vec![1, 2, 3, 3], vec![1, 2, 3, 4, 4], vec![1, 3, 3, 3, 3], vec![2, 2, 2, 3, 3]];
    let symsets: Vec<Vec<usize>> = vec![vec![0, 256], vec![255, 256], vec![256, 285], vec![0, 255, 256], vec![0, 256, 285], vec![0, 1, 256, 257], vec![65, 66, 256, 284], vec![0, 255, 256, 257, 285], vec![1, 2, 3, 256, 264]];
    for ms in &multisets {
        for ss in symsets.iter().filter(|s| s.len() == ms.len()) {
            // two placements: ascending and descending lengths over the symbol set
            for rev in [false, true] {
                let mut ll = vec![0u8; 286];
                for (i, &s) in ss.iter().enumerate() {
                    ll[s] = if rev { ms[ms.len() - 1 - i] } else { ms[i] };
                }
                let toks: Vec<Tok> = ss
                    .iter()
                    .filter(|&&s| s != 256)
                    .flat_map(|&s| {
                        if s < 256 {
                            vec![Tok::Lit(s as u8)]
                        } else {
                            // a length symbol: emit a literal-free match only when something precedes it
                            vec![]
                        }
                    })
                    .collect();
                let mut toks2 = toks.clone();
                // use each length symbol once after the literals (distance 1)
                for &s in ss.iter().filter(|&&s| s > 256) {
                    let len = match s {
                        257 => 3,
                        264 => 10,
                        284 => 227,
                        285 => 258,
                        _ => 3,
                    };
                    if !toks.is_empty() {
                        toks2.push(Tok::Match(len, 1));
                    }
                }
                let has_match = toks2.iter().any(|t| matches!(t, Tok::Match(..)));
                let trimmed: Vec<u8> = {
                    let mut n = 286;
                    while n > 257 && ll[n - 1] == 0 {
                        n -= 1;
                    }
                    ll[..n].to_vec()
                };
                for (dname, dl) in [("nodist", vec![0u8]), ("dist1", vec![1u8]), ("dist2", vec![1u8, 1]), ("dist30", {
                    // 2 codes of 4 bits + 28 codes of 5 bits: Kraft sum exactly 1
                    let mut d = vec![5u8; 30];
                    d[0] = 4;
                    d[1] = 4;
                    d
                })] {
                    if has_match && dl[0] == 0 {
                        continue;
                    }
                    v.push((format!("hcode(lens={ms:?} syms={ss:?} rev={rev} {dname})"), trimmed.clone(), dl, toks2.clone()));
                }
            }
        }
    }
    // degenerate: only EOB with a single 1-bit code (incomplete, accepted by zlib)
    let mut ll = vec![0u8; 257];
    ll[256] = 1;
    v.push(("hcode(single EOB code)".into(), ll, vec![0], vec![]));
    // 15-bit codes
    let mut ll = vec![0u8; 286];
    let syms = [0usize, 1, 2, 3, 4, 5, 6, 7, 8, 9, 10, 11, 12, 13, 256, 285];
    for (i, &s) in syms.iter().enumerate() {
        ll[s] = if i < 15 { (i + 1) as u8 } else { 15 };
    }
    v.push(("hcode(15-bit chain)".into(), ll.clone(), vec![1, 1], vec![Tok::Lit(0), Tok::Lit(13), Tok::Match(258, 1), Tok::Match(258, 2), Tok::Lit(5)]));
    // 15-bit distance codes
    let mut dl = vec![0u8; 30];
    for (i, d) in dl.iter_mut().enumerate().take(16) {
        *d = if i < 15 { (i + 1) as u8 } else { 15 };
    }
    v.push(("hcode(15-bit dist chain)".into(), ll, dl, vec![Tok::Lit(0), Tok::Lit(1), Tok::Match(258, 1), Tok::Match(258, 2), Tok::Match(258, 5)]));
    // HLIT = 286 with all symbols 9 bits except a few (second-level tables), HDIST = 30
    let mut ll = vec![9u8; 286];
    for x in ll.iter_mut().take(226) {
        *x = 8;
    }
    // Kraft: 226/256 + 60/512 = 0.883+0.117 = 1.0 exactly? 226*2+60 = 512 -> yes
    let mut d30 = vec![5u8; 30];
    d30[0] = 4;
    d30[1] = 4;
    v.push(("hcode(286 symbols 8/9 bits)".into(), ll, d30, vec![Tok::Lit(0), Tok::Lit(200), Tok::Lit(255), Tok::Match(258, 3), Tok::Match(3, 1)]));
    v
}

/// valid-by-construction and invalid-by-construction raw streams
pub fn base_raw(quick: bool) -> Vec<Gen> {
    let mut v = vec![];
    let abc = b"abcabcabd".to_vec();
    // single blocks of each type
    for (n, d) in [("empty", vec![]), ("a", b"a".to_vec()), ("abc", abc.clone())] {
        v.push(gen(format!("stored({n})"), &[Plan::Stored { data: d.clone(), bad_nlen: false }]));
        v.push(gen(format!("fixed({n})"), &[Plan::Fixed(lits(&d))]));
        v.push(gen(format!("dynauto({n})"), &[Plan::DynamicAuto(lits(&d))]));
    }
    v.push(gen("stored(bad nlen)".into(), &[Plan::Stored { data: b"xy".to_vec(), bad_nlen: true }]));
    // token programs: all programs of <= 3 tokens over a small alphabet (many are invalid: too far back)
    let alpha: Vec<Tok> = vec![Tok::Lit(b'a'), Tok::Lit(0xff), Tok::Match(3, 1), Tok::Match(4, 2), Tok::Match(10, 1), Tok::Match(258, 1), Tok::Match(257, 3), Tok::Match(3, 4)];
    let maxp = 3;
    let _ = quick;
    let mut progs: Vec<Vec<Tok>> = vec![vec![]];
    let mut prev: Vec<Vec<Tok>> = vec![vec![]];
    for _ in 0..maxp {
        let mut next = vec![];
        for p in &prev {
            for &t in &alpha {
                let mut q = p.clone();
                q.push(t);
                next.push(q);
            }
        }
        progs.extend(next.iter().cloned());
        prev = next;
    }
    for (i, p) in progs.iter().enumerate() {
        v.push(gen(format!("fixed(prog#{i} {p:?})"), &[Plan::Fixed(p.clone())]));
        if i % 3 == 0 {
            v.push(gen(format!("dynauto(prog#{i})"), &[Plan::DynamicAuto(p.clone())]));
            // same program after a stored block that provides history
            v.push(gen(format!("stored(abcd)+fixed(prog#{i})"), &[Plan::Stored { data: b"abcd".to_vec(), bad_nlen: false }, Plan::Fixed(p.clone())]));
        }
    }
    // stored blocks at each of the 8 bit offsets: k empty fixed blocks (10 bits each) in front shift the offset
    for k in 0..8 {
        let mut plans: Vec<Plan> = (0..k).map(|_| Plan::Fixed(vec![])).collect();
        plans.push(Plan::Stored { data: b"hello".to_vec(), bad_nlen: false });
        plans.push(Plan::Fixed(vec![Tok::Match(5, 5)]));
        v.push(gen(format!("{k}xfixed(empty)+stored(hello)+fixed(match)"), &plans));
    }
    // three-block mixes
    v.push(gen("dynauto+stored+fixed".into(), &[Plan::DynamicAuto(lits(b"hello hello hello")), Plan::Stored { data: b"-".to_vec(), bad_nlen: false }, Plan::Fixed(vec![Tok::Match(17, 18), Tok::Lit(b'!')])]));
    v.push(gen("stored(0)+stored(0)+fixed(empty)".into(), &[Plan::Stored { data: vec![], bad_nlen: false }, Plan::Stored { data: vec![], bad_nlen: false }, Plan::Fixed(vec![])]));
    // blocks that need no output space AFTER the last data byte: empty stored blocks (flush markers) and empty final blocks
    v.push(gen("stored(hello)+stored(0)+stored(0)".into(), &[Plan::Stored { data: b"hello".to_vec(), bad_nlen: false }, Plan::Stored { data: vec![], bad_nlen: false }, Plan::Stored { data: vec![], bad_nlen: false }]));
    v.push(gen("fixed(hello)+stored(0)+fixed(empty)".into(), &[Plan::Fixed(lits(b"hello")), Plan::Stored { data: vec![], bad_nlen: false }, Plan::Fixed(vec![])]));
    v.push(gen("dynauto(hello hello)+stored(0)".into(), &[Plan::DynamicAuto(lits(b"hello hello")), Plan::Stored { data: vec![], bad_nlen: false }]));
    v.push(gen("fixed(a,match)+stored(0)+stored(0)+dynauto(empty)".into(), &[Plan::Fixed(vec![Tok::Lit(b'a'), Tok::Match(258, 1)]), Plan::Stored { data: vec![], bad_nlen: false }, Plan::Stored { data: vec![], bad_nlen: false }, Plan::DynamicAuto(vec![])]));
    // raw symbols that are invalid: 286, 287 in the fixed code; distance symbols 30/31 via a dynamic plan are not expressible, bit flips cover them
    v.push(gen("fixed(sym286)".into(), &[Plan::Fixed(vec![Tok::Lit(b'a'), Tok::RawSym(286)])]));
    v.push(gen("fixed(sym287)".into(), &[Plan::Fixed(vec![Tok::Lit(b'a'), Tok::RawSym(287)])]));
    // H-codes
    for (name, ll, dl, toks) in hcodes() {
        for rle in [Rle::Greedy, Rle::None] {
            if rle == Rle::None && ll.len() > 270 && quick {
                continue;
            }
            let plan = Plan::Dynamic { toks: toks.clone(), ll_lens: ll.clone(), d_lens: dl.clone(), rle, hclen_trim: rle == Rle::Greedy };
            v.push(gen(format!("{name} rle={rle:?}"), &[plan.clone()]));
            // ±1 faults on each used length: over-subscribed / incomplete
            if rle == Rle::Greedy {
                let used: Vec<usize> = (0..ll.len()).filter(|&i| ll[i] != 0).collect();
                for &u in used.iter().take(if quick { 2 } else { 6 }) {
                    for delta in [-1i32, 1] {
                        let mut l2 = ll.clone();
                        let nv = l2[u] as i32 + delta;
                        if !(0..=15).contains(&nv) {
                            continue;
                        }
                        l2[u] = nv as u8;
                        if l2[256] == 0 {
                            // builder needs a code for EOB to emit; the stream is still useful up to the header
                            continue;
                        }
                        let toks_ok: Vec<Tok> = toks
                            .iter()
                            .copied()
                            .filter(|t| match t {
                                Tok::Lit(b) => l2[*b as usize] != 0,
                                Tok::Match(len, _) => l2.get(len_sym(*len).0 as usize).copied().unwrap_or(0) != 0,
                                Tok::RawSym(s) => l2[*s as usize] != 0,
                                Tok::Bits(..) => true,
                            })
                            .collect();
                        let plan = Plan::Dynamic { toks: toks_ok, ll_lens: l2, d_lens: dl.clone(), rle, hclen_trim: true };
                        let mut g = gen(format!("{name} len[{u}]{delta:+}"), &[plan]);
                        g.expected = None; // let the reference decoder judge
                        v.push(g);
                    }
                }
            }
        }
    }
    // illegal HLIT / HDIST
    for (nl, nd) in [(287usize, 1usize), (288, 1), (257, 31), (257, 32)] {
        let mut ll = vec![0u8; nl];
        ll[0] = 1;
        ll[256] = 1;
        let mut dl = vec![0u8; nd];
        dl[0] = 1;
        let mut g = gen(format!("hlit={nl} hdist={nd}"), &[Plan::Dynamic { toks: vec![Tok::Lit(0)], ll_lens: ll, d_lens: dl, rle: Rle::Greedy, hclen_trim: true }]);
        g.expected = None;
        v.push(g);
    }
    // state that must not leak from one block's decoding tables into the next block's: every "suffix" block
    // that uses a code the block does not define (a length symbol where the distance alphabet is empty or has a
    // single 1-bit code, a second literal/length code where only EOB has one) after each of several prefix blocks
    // whose tables are rich exactly where the suffix block's tables are empty. The reference decoder judges.
    {
        let lla = |pairs: &[(usize, u8)]| {
            let mut ll = vec![0u8; 258];
            for &(s, l) in pairs {
                ll[s] = l;
            }
            ll
        };
        let shapes: Vec<(&str, Vec<u8>)> = vec![
            ("ll{a:2,EOB:2,257:1}", lla(&[(0x61, 2), (256, 2), (257, 1)])),
            ("ll{a:1,EOB:2,257:2}", lla(&[(0x61, 1), (256, 2), (257, 2)])),
            ("ll{a:2,b:2,EOB:2,257:2}", lla(&[(0x61, 2), (0x62, 2), (256, 2), (257, 2)])),
        ];
        let d30 = {
            let mut d = vec![5u8; 30];
            d[0] = 4;
            d[1] = 4;
            d
        };
        let mut prefixes: Vec<(String, Plan)> = vec![("fixed(aaa+matches)".into(), Plan::Fixed(vec![Tok::Lit(0x61), Tok::Lit(0x61), Tok::Lit(0x61), Tok::Match(3, 1), Tok::Match(3, 2)]))];
        for (sn, ll) in &shapes {
            prefixes.push((format!("dyn({sn} dist[1,1])"), Plan::Dynamic { toks: vec![Tok::Lit(0x61), Tok::Lit(0x61), Tok::Match(3, 1), Tok::Match(3, 2)], ll_lens: ll.clone(), d_lens: vec![1, 1], rle: Rle::Greedy, hclen_trim: true }));
            prefixes.push((format!("dyn({sn} dist30)"), Plan::Dynamic { toks: vec![Tok::Lit(0x61), Tok::Lit(0x61), Tok::Match(3, 1), Tok::Match(3, 2)], ll_lens: ll.clone(), d_lens: d30.clone(), rle: Rle::Greedy, hclen_trim: true }));
        }
        let mut suffixes: Vec<(String, Plan)> = vec![];
        for (sn, ll) in &shapes {
            for (dn, dl) in [("nodist", vec![0u8]), ("dist[1]", vec![1u8]), ("dist[0,1]", vec![0u8, 1])] {
                for bits in [0u16, 1, 2, 3] {
                    suffixes.push((format!("dyn({sn} {dn}) a,257,bits={bits:02b}"), Plan::Dynamic { toks: vec![Tok::Lit(0x61), Tok::RawSym(257), Tok::Bits(bits, 2)], ll_lens: ll.clone(), d_lens: dl.clone(), rle: Rle::Greedy, hclen_trim: true }));
                }
            }
        }
        // only EOB has a literal/length code (1 bit): the other 1-bit code is undefined
        for bits in [0u16, 1, 2, 3] {
            suffixes.push((format!("dyn(ll{{EOB:1}} nodist) bits={bits:02b}"), Plan::Dynamic { toks: vec![Tok::Bits(bits, 2)], ll_lens: lla(&[(256, 1)])[..257].to_vec(), d_lens: vec![0], rle: Rle::Greedy, hclen_trim: true }));
        }
        for (sn, sp) in &suffixes {
            let mut g = gen(format!("undefined-code {sn}"), std::slice::from_ref(sp));
            g.expected = None;
            v.push(g);
            for (pn, pp) in &prefixes {
                let mut g = gen(format!("undefined-code {pn} + {sn}"), &[pp.clone(), sp.clone()]);
                g.expected = None;
                v.push(g);
            }
        }
    }
    // self-overlapping matches (length > distance) at distances around and above the widths of the copy loops'
    // chunks (8/16/32/64 bytes), after just enough literals: the run-length style copies every decoder special-cases
    for (nl, len, dist) in [(8usize, 258u16, 8u16), (16, 258, 16), (17, 40, 17), (32, 258, 32), (33, 100, 33), (63, 258, 63), (64, 258, 64), (64, 65, 64), (65, 258, 65), (100, 158, 100), (100, 258, 100), (128, 200, 128), (200, 258, 199), (257, 258, 257)] {
        let mut t: Vec<Tok> = (0..nl as u32).map(|i| Tok::Lit((i.wrapping_mul(2654435761) >> 11) as u8)).collect();
        t.push(Tok::Match(len, dist));
        t.push(Tok::Lit(b'|'));
        t.push(Tok::Match(len.min(70), dist));
        v.push(gen(format!("overlap({nl} lits + match({len},{dist}) + lit + match)"), &[Plan::DynamicAuto(t.clone())]));
        if nl == 64 || nl == 100 {
            v.push(gen(format!("fixed overlap({nl} lits + match({len},{dist}) + lit + match)"), &[Plan::Fixed(t)]));
        }
    }
    // ... and EVERY distance 1..=70 (and a lattice above) with the longest match right after exactly that many literals
    for dist in (1..=70u16).chain([95, 96, 97, 127, 128, 129, 255, 256, 257]) {
        let mut t: Vec<Tok> = (0..dist as u32).map(|i| Tok::Lit((i.wrapping_mul(2246822519) >> 9) as u8 | 1)).collect();
        t.push(Tok::Match(258, dist));
        t.push(Tok::Lit(0));
        let mut g = gen(format!("overlap-all({dist} lits + match(258,{dist}) + lit)"), &[Plan::Fixed(t)]);
        g.light = true;
        v.push(g);
    }
    // every codeword length 1..15 of a literal/length code and of a distance code USED in the middle of a stream
    // long enough for the decoders' fast loops (>= 15 input bytes and >= 260 bytes of output room left): second-level
    // table lookups for literals, lengths and distances
    {
        let mut ll = vec![0u8; 286];
        let syms = [0usize, 1, 2, 3, 4, 5, 6, 7, 8, 9, 10, 11, 12, 13, 256, 285];
        for (i, &s) in syms.iter().enumerate() {
            ll[s] = if i < 15 { (i + 1) as u8 } else { 15 };
        }
        let mut dl = vec![0u8; 30];
        for (i, d) in dl.iter_mut().enumerate().take(16) {
            *d = if i < 15 { (i + 1) as u8 } else { 15 };
        }
        let base = [1u16, 2, 3, 4, 5, 7, 9, 13, 17, 25, 33, 49, 65, 97, 129, 193];
        let mut t: Vec<Tok> = vec![];
        for i in 0..260u32 {
            t.push(Tok::Lit(if i % 7 == 3 { 1 } else { 0 }));
        }
        for (k, &d) in base.iter().enumerate() {
            t.push(Tok::Match(258, d + (k as u16 % 2) * (d > 4) as u16));
            t.push(Tok::Lit((k % 14) as u8));
        }
        for i in 0..14u8 {
            t.push(Tok::Lit(i));
        }
        for _ in 0..300 {
            t.push(Tok::Lit(0));
        }
        v.push(gen("long hcode(15-bit ll chain, 15-bit dist chain, every codeword used mid-stream)".into(), &[Plan::Dynamic { toks: t.clone(), ll_lens: ll.clone(), d_lens: dl, rle: Rle::Greedy, hclen_trim: true }]));
        // the same tokens with a flat 5-bit distance code next to the 15-bit literal/length chain
        let mut d30 = vec![5u8; 30];
        d30[0] = 4;
        d30[1] = 4;
        v.push(gen("long hcode(15-bit ll chain, dist30, every codeword used mid-stream)".into(), &[Plan::Dynamic { toks: t, ll_lens: ll, d_lens: d30, rle: Rle::Greedy, hclen_trim: true }]));
    }
    // the same as the LAST token of the stream and with no earlier match (an earlier chunked copy of the same period
    // overshoots its end and pre-writes exactly the bytes a wrong tail copy would have to produce)
    for (nl, len, dist) in [(64usize, 70u16, 64u16), (64, 258, 64), (65, 66, 65), (96, 97, 70), (100, 101, 100), (100, 200, 100), (128, 258, 128), (130, 258, 129), (257, 258, 257), (300, 258, 200)] {
        let mut t: Vec<Tok> = (0..nl as u32).map(|i| Tok::Lit((i.wrapping_mul(2654435761) >> 11) as u8)).collect();
        t.push(Tok::Match(len, dist));
        v.push(gen(format!("overlap-tail({nl} lits + match({len},{dist}))"), &[Plan::Fixed(t.clone())]));
        t.push(Tok::Lit(b'.'));
        v.push(gen(format!("overlap-tail({nl} lits + match({len},{dist}) + lit)"), &[Plan::DynamicAuto(t)]));
    }
    // position sweep: a (literal, literal, longest match) triple, followed by enough input for the fast loops, at
    // EVERY output position p in 0..=530 (every distance from the end of a 256- and a 512-byte window, and of
    // output rooms of those sizes), and around the end of each larger window size
    {
        let mut ps: Vec<usize> = (0..=530).collect();
        for wb in 10..=15 {
            let w = 1usize << wb;
            ps.extend(w - 264..=w - 254);
            ps.extend(w - 3..=w + 2);
        }
        for p in ps {
            let mut t: Vec<Tok> = vec![];
            let mut have = 0usize;
            if p > 0 {
                t.push(Tok::Lit(b'a'));
                have = 1;
                while have < p {
                    let l = (p - have).min(258);
                    if l >= 3 {
                        t.push(Tok::Match(l as u16, 1));
                        have += l;
                    } else {
                        t.push(Tok::Lit(b'a'));
                        have += 1;
                    }
                }
            }
            t.push(Tok::Lit(b'b'));
            t.push(Tok::Lit(b'c'));
            t.push(Tok::Match(258, 1));
            for _ in 0..40 {
                t.push(Tok::Lit(b'd'));
            }
            t.push(Tok::Match(258, 41));
            let mut g = gen(format!("align({p}: run of a, then b c match(258,1) 40xd match(258,41))"), &[Plan::Fixed(t)]);
            g.light = true;
            v.push(g);
        }
    }
    // dynamic headers whose FIRST code-length symbol is 16 ("repeat the previous length" with nothing before it), at
    // every bit alignment (HCLEN 4..=12 moves the symbol by 3 bits each): invalid as soon as the symbol is there, but a
    // decoder may only say so once it has it (truncations of these decide "needs more input" versus "data error")
    for hclen in 4..=12usize {
        let mut w = BitW::default();
        w.put(1, 1);
        w.put(2, 2);
        w.put(0, 5); // HLIT = 257
        w.put(0, 5); // HDIST = 1
        w.put((hclen - 4) as u32, 4);
        // code length code lengths in the order 16 17 18 0 8 7 ...: symbols 16 and 0 get 1 bit each
        for i in 0..hclen {
            w.put(if i == 0 || i == 3 { 1 } else { 0 }, 3);
        }
        w.put(1, 1); // symbol 16 (codes: 0 -> '0', 16 -> '1')
        w.put(0, 2); // its repeat count
        for _ in 0..40 {
            w.put(0, 1);
        }
        let raw = w.finish();
        v.push(Gen { name: format!("dyn(first code length symbol is 16, hclen={hclen})"), raw, expected: None, max_dist: 0, light: false });
    }
    // code-length sets that need the LARGEST two-level decoding tables (the classic "enough" question): every histogram
    // of the class {one code on each length of a subset of 1..=10} + {0..2 codes of 11, 14 bits, 0/2/4 of 15 bits} +
    // the 12/13-bit codes that complete it, on 258..=286 symbols, ranked by the number of table entries an independent
    // model of the sub-table sizing rule gives for 10 and for 9 root bits; the top sets of each ranking are used
    for (why, lens) in table_heavy_sets() {
        let n = lens.len();
        let mut ll = lens.clone();
        ll.resize(n.max(257), 0);
        let mut t: Vec<Tok> = vec![];
        for s in [0u8, 1, 2, 3, 4, 5, 6, 50, 100, 200, 254, 255] {
            t.push(Tok::Lit(s));
        }
        for len in [3u16, 4, 10, 11, 18, 35, 130, 195, 227, 257, 258] {
            if (len_sym(len).0 as usize) < n {
                t.push(Tok::Match(len, 1 + (len % 2)));
                t.push(Tok::Lit((len % 7) as u8));
            }
        }
        let mut g = gen(format!("table-heavy({why}, {n} symbols)"), &[Plan::Dynamic { toks: t, ll_lens: ll, d_lens: vec![1, 1], rle: Rle::Greedy, hclen_trim: true }]);
        g.light = true;
        v.push(g);
    }
    // long streams: window wrap, 32 KiB distances, maximal stored block
    let mut long = vec![];
    for i in 0..33000u32 {
        long.push(Tok::Lit((i.wrapping_mul(2654435761) >> 13) as u8));
    }
    long.push(Tok::Match(258, 32768));
    long.push(Tok::Match(3, 32767));
    long.push(Tok::Match(258, 1));
    for i in 0..40 {
        long.push(Tok::Match(258, 258 + i));
    }
    v.push(gen("long(33000 lits + far matches)".into(), &[Plan::DynamicAuto(long)]));
    // > 3 windows of output made of far back-references only (a 20000-byte block repeated): every call after the first
    // window decodes matches that reach across whatever the previous calls left in the window
    {
        let mut t: Vec<Tok> = (0..20000u32).map(|i| Tok::Lit((i.wrapping_mul(2246822519) >> 15) as u8)).collect();
        for _ in 0..400 {
            t.push(Tok::Match(258, 20000));
        }
        v.push(gen("long(20000 lits + 400 x match(258,20000))".into(), &[Plan::DynamicAuto(t)]));
    }
    v.push(gen("stored(65535)+fixed".into(), &[Plan::Stored { data: lcg_bytes(4, 65535), bad_nlen: false }, Plan::Fixed(vec![Tok::Match(258, 65535 - 40000)])]));
    if !quick {
        let mut rep = vec![Tok::Lit(b'z')];
        for _ in 0..400 {
            rep.push(Tok::Match(258, 1));
        }
        v.push(gen("fixed(z + 400 x match(258,1))".into(), &[Plan::Fixed(rep)]));
    }
    v
}

/// entries a two-level decoding table with `root` first-level bits needs for the canonical code with these lengths
/// (first level, plus one sub-table per distinct `root`-bit prefix of the longer codes; a sub-table started by a code
/// of length L has 2^k entries, k the smallest number of bits from L - root on that the remaining codes of lengths up to
/// root + k do not fill completely, bounded by the longest code)
pub fn table_entries(lens: &[u8], root: usize) -> usize {
    let mut count = [0usize; 16];
    for &l in lens {
        count[l as usize] += 1;
    }
    count[0] = 0;
    let Some(max) = (1..=15).rev().find(|&l| count[l] != 0) else { return 0 };
    let min = (1..=15).find(|&l| count[l] != 0).unwrap();
    let root = root.min(max).max(min);
    let mut used = 1usize << root;
    let mut code = 0u32; // canonical code of the current length
    let mut last_prefix: Option<u32> = None;
    for len in min..=max {
        while count[len] != 0 {
            if len > root {
                let prefix = code >> (len - root);
                if last_prefix != Some(prefix) {
                    let mut curr = len - root;
                    let mut left: i64 = 1 << curr;
                    while curr + root < max {
                        left -= count[curr + root] as i64;
                        if left <= 0 {
                            break;
                        }
                        curr += 1;
                        left <<= 1;
                    }
                    used += 1 << curr;
                    last_prefix = Some(prefix);
                }
            }
            code += 1;
            count[len] -= 1;
        }
        code <<= 1;
    }
    used
}

/// see `base_raw`: (label, lengths in symbol order)
pub fn table_heavy_sets() -> Vec<(String, Vec<u8>)> {
    let mut found: Vec<(usize, usize, Vec<usize>)> = vec![]; // (entries@10, entries@9, histogram)
    for sub in 0u32..1024 {
        let mut base_k = 0u32; // Kraft sum in units of 2^-15
        let mut h0 = vec![0usize; 16];
        for l in 1..=10usize {
            if sub >> (l - 1) & 1 == 1 {
                h0[l] = 1;
                base_k += 1 << (15 - l);
            }
        }
        if base_k >= 32768 {
            continue;
        }
        for c11 in 0..=2usize {
            for c14 in 0..=2usize {
                for c15 in [0usize, 2, 4] {
                    let k = base_k as i64 + (c11 as i64) * 16 + (c14 as i64) * 2 + c15 as i64;
                    let rest = 32768 - k;
                    if rest < 0 {
                        continue;
                    }
                    let fixed = h0.iter().sum::<usize>() + c11 + c14 + c15;
                    for c13 in 0..=286usize {
                        let r = rest - 4 * c13 as i64;
                        if r < 0 || r % 8 != 0 {
                            continue;
                        }
                        let c12 = (r / 8) as usize;
                        let n = fixed + c12 + c13;
                        if !(258..=286).contains(&n) {
                            continue;
                        }
                        let mut h = h0.clone();
                        h[11] = c11;
                        h[12] = c12;
                        h[13] = c13;
                        h[14] = c14;
                        h[15] = c15;
                        let lens: Vec<u8> = (1..=15u8).flat_map(|l| std::iter::repeat(l).take(h[l as usize])).collect();
                        found.push((table_entries(&lens, 10), table_entries(&lens, 9), h));
                    }
                }
            }
        }
    }
    let mut out: Vec<(String, Vec<u8>)> = vec![];
    for root in [10usize, 9] {
        found.sort_by_key(|f| std::cmp::Reverse(if root == 10 { f.0 } else { f.1 }));
        for f in found.iter().take(5) {
            let lens: Vec<u8> = (1..=15u8).flat_map(|l| std::iter::repeat(l).take(f.2[l as usize])).collect();
            let e = if root == 10 { f.0 } else { f.1 };
            let label = format!("{e} entries at {root} root bits, histogram {:?}", &f.2[1..]);
            if !out.iter().any(|o| o.1 == lens) {
                out.push((label, lens));
            }
        }
    }
    out
}

#[derive(Clone, Copy, Debug, PartialEq, Eq)]
pub enum WrapKind {
    Raw,
    Zlib,
    Gzip,
}

/// wrap a raw stream whose meaning is known
pub fn wrap_stream(raw: &[u8], data: &[u8], kind: WrapKind, variant: usize) -> Vec<u8> {
    match kind {
        WrapKind::Raw => raw.to_vec(),
        WrapKind::Zlib => {
            let mut z = r3::write_zlib_header([7u8, 0, 4][variant % 3], (variant % 4) as u8, None);
            z.extend_from_slice(raw);
            z.extend_from_slice(&r3::zlib_trailer(data, 1));
            z
        }
        WrapKind::Gzip => {
            let f = match variant % 4 {
                0 => r3::GzFields { os: 3, ..Default::default() },
                1 => r3::GzFields { hcrc: true, name: Some(b"n".to_vec()), os: 255, ..Default::default() },
                2 => r3::GzFields { text: true, mtime: 77, xfl: 2, extra: Some(vec![1, 2, 3, 4, 5]), comment: Some(b"cm".to_vec()), hcrc: true, ..Default::default() },
                _ => r3::GzFields { extra: Some(vec![]), name: Some(vec![]), comment: Some(vec![]), ..Default::default() },
            };
            let mut g = f.write();
            g.extend_from_slice(raw);
            g.extend_from_slice(&r3::gzip_trailer(data));
            g
        }
    }
}

/// all inflateInit2 window-bits arguments that select this wrapper
pub fn wb_args(kind: WrapKind, rich: bool) -> Vec<i32> {
    match kind {
        WrapKind::Raw => {
            if rich {
                vec![-15, -8, -9, -12]
            } else {
                vec![-15, -9]
            }
        }
        WrapKind::Zlib => {
            if rich {
                vec![15, 0, 8, 9, 12, 47, 32 + 9, 32]
            } else {
                vec![15, 0, 47]
            }
        }
        WrapKind::Gzip => {
            if rich {
                vec![31, 16 + 9, 47, 32, 16]
            } else {
                vec![31, 47]
            }
        }
    }
}

pub enum Mutation {
    None,
    BitFlip(usize),
    ByteSub(usize, u8),
    Truncate(usize),
    Append(Vec<u8>),
}

impl Mutation {
    pub fn apply(&self, s: &[u8]) -> Vec<u8> {
        let mut v = s.to_vec();
        match self {
            Mutation::None => {}
            Mutation::BitFlip(b) => v[b / 8] ^= 1 << (b % 8),
            Mutation::ByteSub(i, x) => v[*i] = *x,
            Mutation::Truncate(n) => v.truncate(*n),
            Mutation::Append(t) => v.extend_from_slice(t),
        }
        v
    }
    pub fn desc(&self) -> String {
        match self {
            Mutation::None => "intact".into(),
            Mutation::BitFlip(b) => format!("bitflip@{b}"),
            Mutation::ByteSub(i, x) => format!("byte[{i}]={x:#04x}"),
            Mutation::Truncate(n) => format!("truncate@{n}"),
            Mutation::Append(t) => format!("append {}", crate::engine::hex(t)),
        }
    }
}
