//! Operation-sequence exploration over the C API: small alphabets of calls with small argument
//! domains, all sequences up to a depth, executed on a fresh stream; generic over the API so that the
//! same program can run on zlib-rs and on zlib-ng (C16) or on zlib-rs alone with invariants (C06).

use crate::api::*;
use crate::drv::*;
use crate::engine::*;
use crate::inputs::*;
use crate::mem::Arena;
use crate::refs::wrap::GzFields;

/// the engine was built with debug assertions (variant "dbg": overflow checks + debug assertions in the library)
pub fn checked_build() -> bool {
    cfg!(debug_assertions)
}

#[derive(Clone, Copy, Debug, PartialEq, Eq)]
pub enum DOp {
    /// deflate(flush) with `inn` new input bytes (usize::MAX = a 300-byte piece) and `room` output bytes
    Deflate { flush: i32, inn: usize, room: usize },
    Params(i32, i32),
    Tune(i32, i32, i32, i32),
    Prime(i32, i32),
    SetDict(usize),
    /// 0: small header, 1: 600-byte name, 2: NULL header, 3: 700-byte extra field, 4: 600-byte comment
    SetHeader(u8),
    Pending,
    Bound(usize),
    Reset,
    ResetKeep,
    /// copy; continue on the copy, end the original
    Copy,
    /// copy; end the copy at once, continue on the original
    CopyEndCopy,
    GetDict,
    End,
}

impl DOp {
    pub fn tag(&self) -> String {
        match self {
            DOp::Deflate { flush, inn, room } => format!("deflate(f={flush},in={},room={})", if *inn == usize::MAX { "piece".into() } else { inn.to_string() }, if *room == AMPLE { "ample".into() } else { room.to_string() }),
            DOp::Params(l, s) => format!("params({l},{s})"),
            DOp::Tune(a, b, c, d) => format!("tune({a},{b},{c},{d})"),
            DOp::Prime(b, v) => format!("prime({b},{v})"),
            DOp::SetDict(n) => format!("setdict({n})"),
            DOp::SetHeader(k) => format!("sethdr({k})"),
            DOp::Pending => "pending".into(),
            DOp::Bound(n) => format!("bound({n})"),
            DOp::Reset => "reset".into(),
            DOp::ResetKeep => "resetkeep".into(),
            DOp::Copy => "copy".into(),
            DOp::CopyEndCopy => "copy+endcopy".into(),
            DOp::GetDict => "getdict".into(),
            DOp::End => "end".into(),
        }
    }
}

#[derive(Clone, Debug, PartialEq, Eq)]
pub struct Obs {
    pub ret: i64,
    pub din: u32,
    pub dout: u32,
    pub out: Vec<u8>,
    pub aux: [i64; 2],
}

pub struct DRun {
    pub obs: Vec<Obs>,
    /// the stream was still live after the ops and the Finish tail ran
    pub tail_calls: usize,
    pub tail_ended: bool,
    pub total_out: Vec<u8>,
    /// offsets into total_out at which a successful deflateReset / deflateResetKeep started a new stream
    pub reset_at: Vec<usize>,
    /// the current stream reached Z_STREAM_END (in an op or in the tail)
    pub finished: bool,
    /// the program was cut before this op index: deflateResetKeep was called with unconsumed lookahead in the
    /// window and the op switches to level 0 (known finding F2: the continuation never ends or aborts, in
    /// zlib-ng as well); neither the op nor the tail was executed
    pub f2_cut_at: Option<usize>,
    /// deflateResetKeep (undocumented) was called while the stream was mid-flight (lookahead, open block,
    /// pending output, buffered symbols or bits): what follows is garbage in both implementations
    pub resetkeep_dirty: bool,
}

pub struct OpEnv {
    pub ain: Arena,
    pub aout: Arena,
    pub aux: Arena,
    pub data: Vec<u8>,
    pub dict: Vec<u8>,
}

impl OpEnv {
    pub fn new() -> OpEnv {
        let mut data = text(21, 2000);
        data.extend(lcg_bytes(5, 500));
        data.extend(rep(b'q', 700));
        OpEnv { ain: Arena::new(1 << 16), aout: Arena::new(1 << 17), aux: Arena::new(1 << 17), data, dict: text(33, 70000) }
    }
}

/// Execute `ops` after deflateInit2(cfg...) (raw argument values, possibly illegal). `probe`: H3 invariants (Rs only).
#[allow(clippy::too_many_arguments)]
/// `strict_pre`: skip calls whose documented precondition does not hold (deflatePrime / deflateSetHeader after the
/// first deflate call).
pub fn run_dops<Zx: Z>(level: i32, method: i32, wbits_arg: i32, mem_level: i32, strategy: i32, ops: &[DOp], env: &OpEnv, guarded: bool, probe: bool, tail_room: usize, strict_pre: bool, rec: Option<&mut Case>) -> Result<DRun, String> {
    run_dops_ex::<Zx>(level, method, wbits_arg, mem_level, strategy, ops, env, guarded, probe, tail_room, strict_pre, false, rec)
}

/// `skip_prime_when_pending`: see the comment at the Prime arm (lock-step comparisons only)
#[allow(clippy::too_many_arguments)]
pub fn run_dops_ex<Zx: Z>(level: i32, method: i32, wbits_arg: i32, mem_level: i32, strategy: i32, ops: &[DOp], env: &OpEnv, guarded: bool, probe: bool, tail_room: usize, strict_pre: bool, skip_prime_when_pending: bool, rec: Option<&mut Case>) -> Result<DRun, String> {
    run_dops_full::<Zx>(level, method, wbits_arg, mem_level, strategy, ops, env, guarded, probe, tail_room, strict_pre, skip_prime_when_pending, None, rec)
}

/// `cut_before`: stop before this op index (used to mirror an F2 cut decided on the zlib-rs run)
#[allow(clippy::too_many_arguments)]
pub fn run_dops_full<Zx: Z>(level: i32, method: i32, wbits_arg: i32, mem_level: i32, strategy: i32, ops: &[DOp], env: &OpEnv, guarded: bool, probe: bool, tail_room: usize, strict_pre: bool, skip_prime_when_pending: bool, cut_before: Option<usize>, rec: Option<&mut Case>) -> Result<DRun, String> {
    let mut rec = rec;
    unsafe {
        let mut s = if guarded { Strm::guarded(0xC3) } else { Strm::plain() };
        let mut run = DRun { obs: vec![], tail_calls: 0, tail_ended: false, total_out: vec![], reset_at: vec![], finished: false, f2_cut_at: None, resetkeep_dirty: false };
        let r = Zx::deflateInit2_(s.p(), level, method, wbits_arg, mem_level, strategy, Zx::zlibVersion(), STREAM_SIZE);
        run.obs.push(Obs { ret: r as i64, din: 0, dout: 0, out: vec![], aux: [0, 0] });
        if r != Z_OK {
            if !matches!(r, Z_STREAM_ERROR | Z_MEM_ERROR | Z_VERSION_ERROR) {
                return Err(format!("{}: deflateInit2({level},{method},{wbits_arg},{mem_level},{strategy}) returned {}", Zx::NAME, rc_name(r)));
            }
            // a failed init must leave nothing allocated and End must be harmless
            let e = Zx::deflateEnd(s.p());
            run.obs.push(Obs { ret: e as i64, din: 0, dout: 0, out: vec![], aux: [0, 0] });
            if let Some(ctl) = &s.ctl {
                if !ctl.live.is_empty() {
                    return Err(format!("{}: failed deflateInit2 left {} blocks allocated", Zx::NAME, ctl.live.len()));
                }
            }
            return Ok(run);
        }
        let mut live = true;
        let mut src_pos = 0usize; // next fresh byte of env.data
        let mut pending_in: Vec<u8> = vec![]; // supplied but not yet consumed
        let mut hdr_hold: Vec<GzHold> = vec![];
        let mut other: Vec<Strm> = vec![]; // ended originals / copies kept alive until the end
        let mut finished = false; // Z_STREAM_END seen
        let mut finish_started = false;
        let mut deflate_called = false;
        let mut resetkeep_with_lookahead = false; // the undocumented deflateResetKeep was called with unconsumed window data
        let mut dirty_prime = false; // deflatePrime was given value bits above `bits`
        let mut prev_state: Option<u64> = None;

        macro_rules! probe_inv {
            ($when:expr) => {
                if probe && Zx::IS_RS && live {
                    if let Some(ds) = zlib_rs::deflate::DeflateStream::from_stream_mut(s.p() as *mut _) {
                        if let Err(e) = zlib_rs::deflate::verif_check_invariants(ds) {
                            // priming with value bits beyond `bits` leaves them in the bit buffer (zlib-ng does the
                            // same); the property does not define the resulting stream, so do not judge it
                            if !(dirty_prime && e.contains("bits above bits_valid")) {
                                return Err(format!("deflate state invariant violated after {}: {e}", $when));
                            }
                        }
                        if let Some(c) = rec.as_deref_mut() {
                            let h = dstate_hash(&zlib_rs::deflate::verif_deflate_state(ds));
                            c.state(h);
                            if let Some(p) = prev_state {
                                c.trans(p, h);
                            }
                            prev_state = Some(h);
                        }
                    }
                }
            };
        }

        let mut cur_level = if level == -1 { 6 } else { level };
        for (oi, op) in ops.iter().enumerate() {
            let mut o = Obs { ret: 0, din: 0, dout: 0, out: vec![], aux: [0, 0] };
            if let DOp::Params(l, _) = *op {
                if live && (cut_before == Some(oi) || (Zx::IS_RS && resetkeep_with_lookahead && l == 0 && cur_level != 0)) {
                    run.f2_cut_at = Some(oi);
                    break;
                }
            }
            match *op {
                DOp::Deflate { flush, inn, room } => {
                    // documented precondition: once Z_FINISH has been requested no further input may be supplied
                    let add = if finish_started { 0 } else if inn == usize::MAX { 300 } else { inn };
                    // (the arena holds 64 KiB of input)
                    if flush == Z_FINISH && live {
                        finish_started = true;
                    }
                    for _ in 0..add {
                        pending_in.push(env.data[src_pos % env.data.len()]);
                        src_pos += 1;
                    }
                    let room_n = if room == AMPLE { 8192 } else { room };
                    let pin = env.ain.put(&pending_in, true);
                    let pout = env.aout.at_end(room_n);
                    s.z.next_in = pin;
                    s.z.avail_in = pending_in.len() as u32;
                    s.z.next_out = pout;
                    s.z.avail_out = room_n as u32;
                    let ret = Zx::deflate(s.p(), flush);
                    deflate_called = true;
                    o.ret = ret as i64;
                    if live {
                        let din = (s.z.next_in as usize).wrapping_sub(pin as usize);
                        let dout = (s.z.next_out as usize).wrapping_sub(pout as usize);
                        if din > pending_in.len() || dout > room_n {
                            return Err(format!("{}: op {oi} {}: cursor left its buffer ({din}/{} in, {dout}/{room_n} out)", Zx::NAME, op.tag(), pending_in.len()));
                        }
                        if s.z.avail_in as usize != pending_in.len() - din || s.z.avail_out as usize != room_n - dout {
                            return Err(format!("{}: op {oi} {}: avail counters inconsistent with cursors", Zx::NAME, op.tag()));
                        }
                        o.din = din as u32;
                        o.dout = dout as u32;
                        o.out = std::slice::from_raw_parts(pout, dout).to_vec();
                        run.total_out.extend_from_slice(&o.out);
                        pending_in.drain(..din);
                        if !matches!(ret, Z_OK | Z_STREAM_END | Z_BUF_ERROR | Z_STREAM_ERROR) {
                            return Err(format!("{}: op {oi} {} returned undocumented {}", Zx::NAME, op.tag(), rc_name(ret)));
                        }
                        if ret == Z_STREAM_END {
                            finished = true;
                        }
                    } else if ret != Z_STREAM_ERROR {
                        return Err(format!("{}: deflate on an ended stream returned {}", Zx::NAME, rc_name(ret)));
                    }
                }
                DOp::Params(l, st) => {
                    let room_n = 8192;
                    let pin = env.ain.put(&pending_in, true);
                    let pout = env.aout.at_end(room_n);
                    s.z.next_in = pin;
                    s.z.avail_in = pending_in.len() as u32;
                    s.z.next_out = pout;
                    s.z.avail_out = room_n as u32;
                    let ret = Zx::deflateParams(s.p(), l, st);
                    o.ret = ret as i64;
                    if live {
                        let din = (s.z.next_in as usize).wrapping_sub(pin as usize);
                        let dout = (s.z.next_out as usize).wrapping_sub(pout as usize);
                        if din > pending_in.len() || dout > room_n {
                            return Err(format!("{}: op {oi} {}: cursor left its buffer", Zx::NAME, op.tag()));
                        }
                        o.din = din as u32;
                        o.dout = dout as u32;
                        o.out = std::slice::from_raw_parts(pout, dout).to_vec();
                        run.total_out.extend_from_slice(&o.out);
                        pending_in.drain(..din);
                        if !matches!(ret, Z_OK | Z_BUF_ERROR | Z_STREAM_ERROR) {
                            return Err(format!("{}: op {oi} {} returned undocumented {}", Zx::NAME, op.tag(), rc_name(ret)));
                        }
                        if ret == Z_OK {
                            cur_level = if l == -1 { 6 } else { l };
                        }
                    }
                }
                DOp::Tune(a, b, c, d) => o.ret = Zx::deflateTune(s.p(), a, b, c, d) as i64,
                DOp::Prime(b, _) if b > 16 && live && checked_build() => {
                    // zlib.h: "bits must be less than or equal to 16"; the library asserts it in builds with debug
                    // assertions (the checked-arithmetic variant): the documented misuse is not made there
                    o.ret = 97;
                }
                DOp::Prime(_, _) if (strict_pre || checked_build()) && deflate_called => {
                    // zlib.h: deflatePrime "must be used before the first deflate() call after a deflateInit2() or deflateReset()"
                    o.ret = 99;
                }
                DOp::Prime(_, _) if skip_prime_when_pending && {
                    let mut pend: u32 = 0;
                    let mut bits: i32 = 0;
                    Zx::deflatePending(s.p(), &mut pend, &mut bits) == Z_OK && pend > 0
                } =>
                {
                    // zlib / zlib-ng append primed bits at pending_buf[pending] although unflushed bytes start at
                    // pending_out: priming while output is pending scrambles the reference's own stream
                    o.ret = 98;
                }
                DOp::Prime(b, v) => {
                    if (0..32).contains(&b) && (v as u32) >> b != 0 || b >= 32 && v < 0 {
                        dirty_prime = true;
                    }
                    o.ret = Zx::deflatePrime(s.p(), b, v) as i64
                }
                DOp::SetDict(n) => {
                    let p = env.aux.put(&env.dict[..n], true);
                    o.ret = Zx::deflateSetDictionary(s.p(), p, n as u32) as i64;
                }
                DOp::SetHeader(_) if strict_pre && deflate_called => {
                    // zlib.h: deflateSetHeader "may be called after deflateInit2() or deflateReset() and before the
                    // first call of deflate()"; replacing the header while a field is partly written makes zlib
                    // itself read past the new field
                    o.ret = 99;
                }
                DOp::SetHeader(k) => {
                    if k == 2 {
                        o.ret = Zx::deflateSetHeader(s.p(), std::ptr::null_mut()) as i64;
                    } else {
                        let f = if k == 0 {
                            GzFields { text: true, mtime: 9, os: 3, name: Some(b"a.txt".to_vec()), hcrc: true, ..Default::default() }
                        } else if k == 3 {
                            GzFields { os: 3, extra: Some(lcg_bytes(5, 700)), name: Some(b"n".to_vec()), hcrc: true, ..Default::default() }
                        } else if k == 4 {
                            GzFields { os: 3, extra: Some(vec![1, 2]), comment: Some(lcg_bytes(6, 600).into_iter().map(|b| b | 1).collect()), ..Default::default() }
                        } else {
                            GzFields { os: 3, name: Some(lcg_bytes(3, 600).into_iter().map(|b| b | 1).collect()), comment: Some(vec![b'c'; 10]), extra: Some(vec![7; 20]), ..Default::default() }
                        };
                        let mut h = make_gz_header(&f);
                        o.ret = Zx::deflateSetHeader(s.p(), &mut *h.head) as i64;
                        hdr_hold.push(h);
                    }
                }
                DOp::Pending => {
                    let mut pend: u32 = 0xAAAA;
                    let mut bits: i32 = 0x55;
                    o.ret = Zx::deflatePending(s.p(), &mut pend, &mut bits) as i64;
                    if o.ret == Z_OK as i64 {
                        // zlib.h documents 0..7 bits; zlib-ng and zlib-rs report the fill of their 64-bit bit
                        // buffer (up to 63). Not part of any listed property, so only recorded.
                        o.aux = [pend as i64, bits as i64];
                    }
                }
                DOp::Bound(n) => {
                    o.ret = Zx::deflateBound(s.p(), n as _) as i64;
                }
                DOp::Reset => {
                    o.ret = Zx::deflateReset(s.p()) as i64;
                    if o.ret == Z_OK as i64 {
                        run.reset_at.push(run.total_out.len());
                        finished = false;
                        finish_started = false;
                        deflate_called = false;
                        dirty_prime = false;
                        if matches!(op, DOp::Reset) {
                            resetkeep_with_lookahead = false;
                        }
                        pending_in.clear();
                    }
                }
                DOp::ResetKeep => {
                    if Zx::IS_RS && live {
                        if let Some(ds) = zlib_rs::deflate::DeflateStream::from_stream_mut(s.p() as *mut _) {
                            let st = zlib_rs::deflate::verif_deflate_state(ds);
                            if st[7] != 0 {
                                resetkeep_with_lookahead = true;
                            }
                            if st[2] != 0 || st[4] != 0 || st[5] != 0 || st[7] != 0 || st[10] != 0 {
                                run.resetkeep_dirty = true;
                            }
                        }
                    }
                    o.ret = Zx::deflateResetKeep(s.p()) as i64;
                    if o.ret == Z_OK as i64 {
                        run.reset_at.push(run.total_out.len());
                        finished = false;
                        finish_started = false;
                        deflate_called = false;
                        dirty_prime = false;
                        if matches!(op, DOp::Reset) {
                            resetkeep_with_lookahead = false;
                        }
                        pending_in.clear();
                    }
                }
                DOp::Copy | DOp::CopyEndCopy => {
                    let mut d = Strm::plain();
                    let ret = Zx::deflateCopy(d.p(), s.p());
                    o.ret = ret as i64;
                    if ret == Z_OK {
                        if *op == DOp::Copy {
                            // continue on the copy, end the original
                            std::mem::swap(&mut d.z, &mut s.z);
                            // `d` now holds the original z_stream; zlib requires state->strm == strm, and
                            // swapping the boxes keeps every z_stream at its address
                            let e = Zx::deflateEnd(d.p());
                            o.aux[0] = e as i64;
                            if e != Z_OK && e != Z_DATA_ERROR {
                                return Err(format!("{}: deflateEnd(original) after copy returned {}", Zx::NAME, rc_name(e)));
                            }
                        } else {
                            let e = Zx::deflateEnd(d.p());
                            o.aux[0] = e as i64;
                        }
                        other.push(d);
                    } else if !matches!(ret, Z_STREAM_ERROR | Z_MEM_ERROR) {
                        return Err(format!("{}: deflateCopy returned {}", Zx::NAME, rc_name(ret)));
                    }
                }
                DOp::GetDict => {
                    let buf = env.aux.at_end(32768 + 300);
                    let mut len: u32 = 0;
                    o.ret = Zx::deflateGetDictionary(s.p(), buf, &mut len) as i64;
                    if o.ret == Z_OK as i64 {
                        if len > 32768 {
                            return Err(format!("{}: deflateGetDictionary length {len}", Zx::NAME));
                        }
                        o.aux = [len as i64, hash_bytes(std::slice::from_raw_parts(buf, len as usize)) as i64];
                    }
                }
                DOp::End => {
                    let e = Zx::deflateEnd(s.p());
                    o.ret = e as i64;
                    if live {
                        if !matches!(e, Z_OK | Z_DATA_ERROR) {
                            return Err(format!("{}: deflateEnd returned {}", Zx::NAME, rc_name(e)));
                        }
                        live = false;
                    } else if e != Z_STREAM_ERROR {
                        return Err(format!("{}: second deflateEnd returned {}", Zx::NAME, rc_name(e)));
                    }
                }
            }
            if !live && !matches!(op, DOp::End | DOp::Deflate { .. } | DOp::Bound(_)) && o.ret != Z_STREAM_ERROR as i64 && o.ret != 99 && o.ret != 98 {
                return Err(format!("{}: op {oi} {} on an ended stream returned {}", Zx::NAME, op.tag(), o.ret));
            }
            probe_inv!(format!("op {oi} {}", op.tag()));
            run.obs.push(o);
        }
        run.finished = finished;
        // default tail: Finish with fresh `tail_room`-byte rooms until stream end
        if live {
            if !finished && run.f2_cut_at.is_none() {
                let cap = 4 * (pending_in.len() + 70_000) / tail_room.max(1) + 4096;
                let mut stalls = 0;
                loop {
                    let pin = env.ain.put(&pending_in, true);
                    let pout = env.aout.at_end(tail_room);
                    s.z.next_in = pin;
                    s.z.avail_in = pending_in.len() as u32;
                    s.z.next_out = pout;
                    s.z.avail_out = tail_room as u32;
                    let ret = Zx::deflate(s.p(), Z_FINISH);
                    run.tail_calls += 1;
                    let din = (s.z.next_in as usize).wrapping_sub(pin as usize);
                    let dout = (s.z.next_out as usize).wrapping_sub(pout as usize);
                    if din > pending_in.len() || dout > tail_room {
                        return Err(format!("{}: Finish tail: cursor left its buffer", Zx::NAME));
                    }
                    run.total_out.extend_from_slice(std::slice::from_raw_parts(pout, dout));
                    pending_in.drain(..din);
                    probe_inv!("a Finish tail call");
                    if ret == Z_STREAM_END {
                        run.tail_ended = true;
                        run.finished = true;
                        break;
                    }
                    if !matches!(ret, Z_OK | Z_BUF_ERROR) {
                        return Err(format!("{}: Finish tail: deflate(Z_FINISH) returned fatal {} after {} calls (a buffer-full status must never be fatal, Finish must reach stream end)", Zx::NAME, rc_name(ret), run.tail_calls));
                    }
                    if din == 0 && dout == 0 {
                        stalls += 1;
                        if stalls > 2 {
                            return Err(format!("{}: Finish tail: no progress with {tail_room} bytes of fresh output space (status {})", Zx::NAME, rc_name(ret)));
                        }
                    } else {
                        stalls = 0;
                    }
                    if run.tail_calls > cap {
                        return Err(format!("{}: Finish tail did not reach Z_STREAM_END within {cap} calls ({} bytes out){}", Zx::NAME, run.total_out.len(), if resetkeep_with_lookahead { " [after deflateResetKeep with unconsumed lookahead in the window]" } else { "" }));
                    }
                }
            }
            let e = Zx::deflateEnd(s.p());
            if e != Z_OK && e != Z_DATA_ERROR {
                return Err(format!("{}: final deflateEnd returned {}", Zx::NAME, rc_name(e)));
            }
        }
        drop(hdr_hold);
        if let Some(ctl) = &s.ctl {
            if !ctl.live.is_empty() || !ctl.errors.is_empty() {
                return Err(format!("{}: allocator discipline at the end of the program: {} live blocks, errors {:?}", Zx::NAME, ctl.live.len(), ctl.errors));
            }
        }
        drop(other);
        Ok(run)
    }
}

pub fn dops_desc(ops: &[DOp]) -> String {
    ops.iter().map(|o| o.tag()).collect::<Vec<_>>().join(" ; ")
}

/// all sequences over `alpha` of length 0..=depth, shortest first, in lexicographic order
pub fn sequences<T: Copy>(alpha: &[T], depth: usize, mut f: impl FnMut(&[T])) {
    f(&[]);
    let n = alpha.len();
    if n == 0 {
        return;
    }
    for d in 1..=depth {
        let mut idx = vec![0usize; d];
        let mut cur: Vec<T> = vec![alpha[0]; d];
        loop {
            f(&cur);
            let mut k = d;
            let mut done = true;
            while k > 0 {
                k -= 1;
                idx[k] += 1;
                if idx[k] < n {
                    cur[k] = alpha[idx[k]];
                    done = false;
                    break;
                }
                idx[k] = 0;
                cur[k] = alpha[0];
            }
            if done {
                break;
            }
        }
    }
}
