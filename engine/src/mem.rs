//! Guard-paged buffers, a guard-paged fault-injecting zalloc/zfree pair, and a counting /
//! fault-injecting global allocator for the Rust API and the gz layer.

use std::alloc::{GlobalAlloc, Layout, System};
use std::cell::Cell;
use std::ffi::c_void;

pub const PAGE: usize = 4096;

#[inline]
fn round_up(n: usize, to: usize) -> usize {
    (n + to - 1) / to * to
}

/// `[PROT_NONE page][data pages ...][PROT_NONE page]`; hands out sub-slices that touch either guard.
pub struct Arena {
    base: *mut u8,
    map_len: usize,
    data: *mut u8,
    cap: usize,
}

unsafe impl Send for Arena {}

impl Arena {
    pub fn new(cap: usize) -> Arena {
        let cap = round_up(cap.max(1), PAGE);
        let map_len = cap + 2 * PAGE;
        unsafe {
            let p = libc::mmap(
                std::ptr::null_mut(),
                map_len,
                libc::PROT_READ | libc::PROT_WRITE,
                libc::MAP_PRIVATE | libc::MAP_ANONYMOUS,
                -1,
                0,
            );
            assert!(p != libc::MAP_FAILED, "mmap failed");
            let base = p as *mut u8;
            assert_eq!(libc::mprotect(base as *mut c_void, PAGE, libc::PROT_NONE), 0);
            assert_eq!(libc::mprotect(base.add(PAGE + cap) as *mut c_void, PAGE, libc::PROT_NONE), 0);
            Arena { base, map_len, data: base.add(PAGE), cap }
        }
    }
    pub fn cap(&self) -> usize {
        self.cap
    }
    /// `len` bytes whose END touches the trailing guard page
    #[inline]
    pub fn at_end(&self, len: usize) -> *mut u8 {
        assert!(len <= self.cap, "arena too small: {} > {}", len, self.cap);
        unsafe { self.data.add(self.cap - len) }
    }
    /// `len` bytes whose START touches the leading guard page
    #[inline]
    pub fn at_start(&self, len: usize) -> *mut u8 {
        assert!(len <= self.cap);
        self.data
    }
    #[inline]
    pub fn place(&self, len: usize, at_end: bool) -> *mut u8 {
        if at_end {
            self.at_end(len)
        } else {
            self.at_start(len)
        }
    }
    /// copy `src` into the arena at the chosen placement and return the pointer
    #[inline]
    pub fn put(&self, src: &[u8], at_end: bool) -> *mut u8 {
        let p = self.place(src.len(), at_end);
        unsafe { std::ptr::copy_nonoverlapping(src.as_ptr(), p, src.len()) };
        p
    }
    pub fn fill(&self, byte: u8) {
        unsafe { std::ptr::write_bytes(self.data, byte, self.cap) };
    }
}

impl Drop for Arena {
    fn drop(&mut self) {
        unsafe { libc::munmap(self.base as *mut c_void, self.map_len) };
    }
}

// ------------------------------------------------------------------------------------------------
// zalloc / zfree with guard pages, garbage fill, fault injection and bookkeeping

thread_local! {
    /// recycled guard-paged mappings keyed by total mapping length (the trailing guard page stays PROT_NONE)
    static POOL: std::cell::RefCell<std::collections::HashMap<usize, Vec<usize>>> = std::cell::RefCell::new(Default::default());
}

fn pool_take(map_len: usize) -> Option<usize> {
    POOL.with(|p| p.borrow_mut().get_mut(&map_len).and_then(|v| v.pop()))
}

fn pool_give(map: usize, map_len: usize) {
    POOL.with(|p| {
        let mut p = p.borrow_mut();
        let v = p.entry(map_len).or_default();
        if v.len() < 8 {
            v.push(map);
        } else {
            unsafe { libc::munmap(map as *mut c_void, map_len) };
        }
    })
}

pub struct Block {
    pub ptr: usize,
    pub size: usize,
    map: usize,
    map_len: usize,
}

pub struct AllocCtl {
    pub requests: u64,
    /// fail exactly request number `fail_at` (0-based)
    pub fail_at: Option<u64>,
    /// fail every request with number >= `fail_from`
    pub fail_from: Option<u64>,
    pub garbage: u8,
    pub live: Vec<Block>,
    pub total_allocs: u64,
    pub total_frees: u64,
    pub errors: Vec<String>,
    pub failed: u64,
    /// tag checked against the `opaque` argument
    pub tag: usize,
    /// keep freed blocks mapped PROT_NONE so that use-after-free faults
    pub quarantine: Vec<(usize, usize)>,
    pub guard: bool,
    /// freed blocks become PROT_NONE (use-after-free faults) instead of being recycled
    pub strict_uaf: bool,
}

impl AllocCtl {
    pub fn new(garbage: u8) -> Box<AllocCtl> {
        let mut b = Box::new(AllocCtl {
            requests: 0,
            fail_at: None,
            fail_from: None,
            garbage,
            live: Vec::with_capacity(8),
            total_allocs: 0,
            total_frees: 0,
            errors: vec![],
            failed: 0,
            tag: 0,
            quarantine: vec![],
            guard: true,
            strict_uaf: false,
        });
        b.tag = &*b as *const AllocCtl as usize;
        b
    }
    pub fn opaque(&mut self) -> *mut c_void {
        self as *mut AllocCtl as *mut c_void
    }
    pub fn live_bytes(&self) -> usize {
        self.live.iter().map(|b| b.size).sum()
    }
    pub fn release_quarantine(&mut self) {
        for (m, l) in self.quarantine.drain(..) {
            unsafe { libc::munmap(m as *mut c_void, l) };
        }
    }
}

impl Drop for AllocCtl {
    fn drop(&mut self) {
        self.release_quarantine();
        for b in self.live.drain(..) {
            if self.strict_uaf {
                unsafe { libc::munmap(b.map as *mut c_void, b.map_len) };
            } else {
                pool_give(b.map, b.map_len);
            }
        }
    }
}

pub unsafe extern "C" fn v_zalloc(opaque: *mut c_void, items: u32, size: u32) -> *mut c_void {
    let ctl = &mut *(opaque as *mut AllocCtl);
    let n = ctl.requests;
    ctl.requests += 1;
    if ctl.fail_at == Some(n) || ctl.fail_from.map_or(false, |k| n >= k) {
        ctl.failed += 1;
        return std::ptr::null_mut();
    }
    let bytes = items as usize * size as usize;
    if bytes == 0 {
        return std::ptr::null_mut();
    }
    // the end of the block (rounded up to 16 for malloc-like alignment) touches a PROT_NONE page
    let usable = round_up(bytes, 16);
    let data_len = round_up(usable, PAGE);
    let map_len = data_len + PAGE;
    let base = match if ctl.strict_uaf { None } else { pool_take(map_len) } {
        Some(m) => m as *mut u8,
        None => {
            let p = libc::mmap(
                std::ptr::null_mut(),
                map_len,
                libc::PROT_READ | libc::PROT_WRITE,
                libc::MAP_PRIVATE | libc::MAP_ANONYMOUS,
                -1,
                0,
            );
            if p == libc::MAP_FAILED {
                ctl.errors.push("harness mmap failed".into());
                return std::ptr::null_mut();
            }
            let base = p as *mut u8;
            libc::mprotect(base.add(data_len) as *mut c_void, PAGE, libc::PROT_NONE);
            base
        }
    };
    let ptr = base.add(data_len - usable);
    // recycled mappings always get refilled: the library must not depend on previous contents
    std::ptr::write_bytes(ptr, ctl.garbage, usable);
    ctl.total_allocs += 1;
    ctl.live.push(Block { ptr: ptr as usize, size: bytes, map: base as usize, map_len });
    ptr as *mut c_void
}

pub unsafe extern "C" fn v_zfree(opaque: *mut c_void, ptr: *mut c_void) {
    if opaque.is_null() {
        // cannot even record it: abort loudly, the parent attributes it to the case
        eprintln!("zfree called with a NULL opaque (allocator discipline violated)");
        libc::abort();
    }
    let ctl = &mut *(opaque as *mut AllocCtl);
    if ctl.tag != opaque as usize {
        eprintln!("zfree called with a foreign opaque");
        libc::abort();
    }
    if ptr.is_null() {
        // free(NULL) is tolerated by zlib allocators; record it as a note only
        return;
    }
    match ctl.live.iter().position(|b| b.ptr == ptr as usize) {
        Some(i) => {
            let b = ctl.live.swap_remove(i);
            ctl.total_frees += 1;
            if ctl.strict_uaf {
                // keep it mapped but inaccessible: a later touch is a use-after-free and faults
                libc::mprotect(b.map as *mut c_void, b.map_len, libc::PROT_NONE);
                ctl.quarantine.push((b.map, b.map_len));
                if ctl.quarantine.len() > 64 {
                    let (m, l) = ctl.quarantine.remove(0);
                    libc::munmap(m as *mut c_void, l);
                }
            } else {
                // poison, then recycle the mapping (no syscall in the steady state)
                std::ptr::write_bytes(b.ptr as *mut u8, 0xDD, b.size);
                pool_give(b.map, b.map_len);
            }
        }
        None => {
            ctl.errors.push(format!("zfree of a pointer that is not a live block: {:#x}", ptr as usize));
        }
    }
}

// ------------------------------------------------------------------------------------------------
// global allocator wrapper (Rust API, gz layer)

thread_local! {
    static G_ACTIVE: Cell<bool> = const { Cell::new(false) };
    static G_REQ: Cell<u64> = const { Cell::new(0) };
    static G_FAIL_AT: Cell<u64> = const { Cell::new(u64::MAX) };
    static G_FAIL_FROM: Cell<u64> = const { Cell::new(u64::MAX) };
    static G_ALLOCS: Cell<u64> = const { Cell::new(0) };
    static G_FREES: Cell<u64> = const { Cell::new(0) };
    static G_LIVE: Cell<i64> = const { Cell::new(0) };
    static G_FAILED: Cell<u64> = const { Cell::new(0) };
    static G_GARBAGE: Cell<u8> = const { Cell::new(0) };
}

pub struct VerifGlobal;

unsafe impl GlobalAlloc for VerifGlobal {
    unsafe fn alloc(&self, layout: Layout) -> *mut u8 {
        if G_ACTIVE.try_with(|a| a.get()).unwrap_or(false) {
            let n = G_REQ.with(|r| {
                let v = r.get();
                r.set(v + 1);
                v
            });
            if n == G_FAIL_AT.with(|c| c.get()) || n >= G_FAIL_FROM.with(|c| c.get()) {
                G_FAILED.with(|c| c.set(c.get() + 1));
                return std::ptr::null_mut();
            }
            let p = System.alloc(layout);
            if !p.is_null() {
                G_ALLOCS.with(|c| c.set(c.get() + 1));
                G_LIVE.with(|c| c.set(c.get() + layout.size() as i64));
                let g = G_GARBAGE.with(|c| c.get());
                if g != 0 {
                    std::ptr::write_bytes(p, g, layout.size());
                }
            }
            return p;
        }
        System.alloc(layout)
    }
    unsafe fn alloc_zeroed(&self, layout: Layout) -> *mut u8 {
        if G_ACTIVE.try_with(|a| a.get()).unwrap_or(false) {
            let n = G_REQ.with(|r| {
                let v = r.get();
                r.set(v + 1);
                v
            });
            if n == G_FAIL_AT.with(|c| c.get()) || n >= G_FAIL_FROM.with(|c| c.get()) {
                G_FAILED.with(|c| c.set(c.get() + 1));
                return std::ptr::null_mut();
            }
            let p = System.alloc_zeroed(layout);
            if !p.is_null() {
                G_ALLOCS.with(|c| c.set(c.get() + 1));
                G_LIVE.with(|c| c.set(c.get() + layout.size() as i64));
            }
            return p;
        }
        System.alloc_zeroed(layout)
    }
    unsafe fn dealloc(&self, ptr: *mut u8, layout: Layout) {
        if G_ACTIVE.try_with(|a| a.get()).unwrap_or(false) {
            G_FREES.with(|c| c.set(c.get() + 1));
            G_LIVE.with(|c| c.set(c.get() - layout.size() as i64));
        }
        System.dealloc(ptr, layout)
    }
    unsafe fn realloc(&self, ptr: *mut u8, layout: Layout, new_size: usize) -> *mut u8 {
        if G_ACTIVE.try_with(|a| a.get()).unwrap_or(false) {
            let n = G_REQ.with(|r| {
                let v = r.get();
                r.set(v + 1);
                v
            });
            if n == G_FAIL_AT.with(|c| c.get()) || n >= G_FAIL_FROM.with(|c| c.get()) {
                G_FAILED.with(|c| c.set(c.get() + 1));
                return std::ptr::null_mut();
            }
            let p = System.realloc(ptr, layout, new_size);
            if !p.is_null() {
                G_LIVE.with(|c| c.set(c.get() + new_size as i64 - layout.size() as i64));
            }
            return p;
        }
        System.realloc(ptr, layout, new_size)
    }
}

#[derive(Clone, Copy, Debug, Default)]
pub struct GStats {
    pub requests: u64,
    pub allocs: u64,
    pub frees: u64,
    pub live: i64,
    pub failed: u64,
}

/// Activate accounting on this thread. The region between `g_begin` and `g_end` must not allocate
/// harness-side memory that outlives it (allocate buffers before).
pub fn g_begin(fail_at: Option<u64>, fail_from: Option<u64>, garbage: u8) {
    G_REQ.with(|c| c.set(0));
    G_ALLOCS.with(|c| c.set(0));
    G_FREES.with(|c| c.set(0));
    G_LIVE.with(|c| c.set(0));
    G_FAILED.with(|c| c.set(0));
    G_FAIL_AT.with(|c| c.set(fail_at.unwrap_or(u64::MAX)));
    G_FAIL_FROM.with(|c| c.set(fail_from.unwrap_or(u64::MAX)));
    G_GARBAGE.with(|c| c.set(garbage));
    G_ACTIVE.with(|c| c.set(true));
}

pub fn g_pause() {
    G_ACTIVE.with(|c| c.set(false));
}
pub fn g_resume() {
    G_ACTIVE.with(|c| c.set(true));
}

pub fn g_end() -> GStats {
    G_ACTIVE.with(|c| c.set(false));
    GStats {
        requests: G_REQ.with(|c| c.get()),
        allocs: G_ALLOCS.with(|c| c.get()),
        frees: G_FREES.with(|c| c.get()),
        live: G_LIVE.with(|c| c.get()),
        failed: G_FAILED.with(|c| c.get()),
    }
}

/// number of failed requests since `g_begin` (readable while accounting is active; does not allocate)
pub fn g_stats_failed() -> u64 {
    G_FAILED.with(|c| c.get())
}
