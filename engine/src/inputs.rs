//! Shared alphabets of DESIGN.md §4: byte inputs (I-tiny, I-shape, I-worst) and configurations.

#[derive(Clone, Copy, Debug, PartialEq, Eq, Hash)]
pub enum Wrap {
    Raw,
    Zlib,
    Gzip,
}

impl Wrap {
    pub const ALL: [Wrap; 3] = [Wrap::Raw, Wrap::Zlib, Wrap::Gzip];
    pub fn tag(self) -> &'static str {
        match self {
            Wrap::Raw => "raw",
            Wrap::Zlib => "zlib",
            Wrap::Gzip => "gzip",
        }
    }
}

#[derive(Clone, Copy, Debug, PartialEq, Eq, Hash)]
pub struct DCfg {
    pub level: i32,
    pub strategy: i32,
    /// 8..=15 (the magnitude; the wrapper decides the sign / +16)
    pub wbits: i32,
    pub mem_level: i32,
    pub wrap: Wrap,
}

impl DCfg {
    pub fn window_bits_arg(&self) -> i32 {
        match self.wrap {
            Wrap::Raw => -self.wbits,
            Wrap::Zlib => self.wbits,
            Wrap::Gzip => self.wbits + 16,
        }
    }
    /// effective window size used by the encoder (8 is promoted to 9)
    pub fn w_size(&self) -> usize {
        1usize << self.wbits.max(9)
    }
    pub fn lit_bufsize(&self) -> usize {
        1usize << (self.mem_level + 6)
    }
    pub fn desc(&self) -> String {
        format!("L{} S{} wb{} ml{} {}", self.level, self.strategy, self.wbits, self.mem_level, self.wrap.tag())
    }
}

pub fn k_small() -> Vec<DCfg> {
    let mut v = vec![];
    for wrap in Wrap::ALL {
        for wbits in [9, 10] {
            for mem_level in [1, 2] {
                for strategy in 0..5 {
                    for level in 0..=9 {
                        v.push(DCfg { level, strategy, wbits, mem_level, wrap });
                    }
                }
            }
        }
    }
    v
}

pub fn k_edge() -> Vec<DCfg> {
    let mut v = vec![];
    for wrap in Wrap::ALL {
        for (wbits, mem_level) in [(9, 1), (9, 9), (15, 1), (15, 8), (15, 9)] {
            for strategy in 0..5 {
                for level in [0, 1, 2, 3, 4, 6, 8, 9] {
                    v.push(DCfg { level, strategy, wbits, mem_level, wrap });
                }
            }
        }
    }
    v
}

pub fn k_all() -> Vec<DCfg> {
    let mut v = vec![];
    for wrap in Wrap::ALL {
        for wbits in 9..=15 {
            for mem_level in 1..=9 {
                for strategy in 0..5 {
                    for level in 0..=9 {
                        v.push(DCfg { level, strategy, wbits, mem_level, wrap });
                    }
                }
            }
        }
    }
    v
}

// ------------------------------------------------------------------------------------------------

pub struct Lcg(pub u32);
impl Lcg {
    #[inline]
    pub fn next(&mut self) -> u32 {
        self.0 = self.0.wrapping_mul(1664525).wrapping_add(1013904223);
        self.0 >> 8
    }
}

pub fn lcg_bytes(seed: u32, n: usize) -> Vec<u8> {
    let mut g = Lcg(seed);
    (0..n).map(|_| (g.next() >> 8) as u8).collect()
}

pub fn rep(b: u8, n: usize) -> Vec<u8> {
    vec![b; n]
}

pub fn ramp(n: usize) -> Vec<u8> {
    (0..n).map(|i| i as u8).collect()
}

/// period-p string: the first p bytes are an lcg sample, then repeated
pub fn periodic(p: usize, n: usize) -> Vec<u8> {
    let base = lcg_bytes(p as u32 * 7 + 1, p.max(1));
    (0..n).map(|i| base[i % base.len()]).collect()
}

const WORDS: [&str; 8] = ["the ", "quick ", "brown ", "fox ", "jumps ", "over ", "lazy dog. ", "zlib-rs "];

/// literal/match mix from a fixed 8-word dictionary
pub fn text(seed: u32, n: usize) -> Vec<u8> {
    let mut g = Lcg(seed);
    let mut v = Vec::with_capacity(n + 16);
    while v.len() < n {
        v.extend_from_slice(WORDS[(g.next() % 8) as usize].as_bytes());
    }
    v.truncate(n);
    v
}

/// block A · incompressible filler · block A, so that the second A matches at distance exactly `d`
pub fn far(d: usize, alen: usize) -> Vec<u8> {
    let a = lcg_bytes(99, alen);
    let mut v = a.clone();
    if d > alen {
        v.extend(lcg_bytes(7, d - alen));
    }
    v.extend_from_slice(&a);
    v
}

/// bytes >= 144 only (9-bit static codes)
pub fn nine_bit(n: usize) -> Vec<u8> {
    let mut g = Lcg(5);
    (0..n).map(|_| 144 + (g.next() % 112) as u8).collect()
}

pub fn flat256(n: usize) -> Vec<u8> {
    (0..n).map(|i| (i.wrapping_mul(167) >> 0) as u8).collect()
}

/// n distinct byte values whose frequencies follow the Fibonacci numbers (the Huffman tree is a chain of depth
/// n-1: with n > 16 the code-length limiting step of the encoder has to repair an overflow), deterministic
/// shuffle. The `ones` least frequent symbols get frequency 1 instead, which moves leaves between the deepest
/// levels (several overflow counts / repair rounds; empty levels just above the limit).
pub fn fib_hist(n: usize, ones: usize, first: u8) -> Vec<u8> {
    let mut v = vec![];
    let (mut a, mut b) = (1usize, 2usize);
    for i in 0..n {
        let f = if i < ones { 1 } else { a };
        v.extend(std::iter::repeat(first.wrapping_add(i as u8)).take(f));
        let c = a + b;
        a = b;
        b = c;
    }
    // Fisher-Yates with the LCG
    let mut g = Lcg(99 + n as u32 + ones as u32);
    for i in (1..v.len()).rev() {
        let j = (g.next() as usize) % (i + 1);
        v.swap(i, j);
    }
    v
}

/// 4-byte copies at distances whose distance-code symbols 0..nsyms have Fibonacci frequencies, over incompressible
/// filler: a skewed distance histogram (deep distance tree, long distance codewords)
pub fn dist_fib(nsyms: usize) -> Vec<u8> {
    let mut v = lcg_bytes(123, 1100);
    let base = [1usize, 2, 3, 4, 5, 7, 9, 13, 17, 25, 33, 49, 65, 97, 129, 193, 257, 385, 513, 769];
    let mut g = Lcg(77);
    let (mut a, mut b) = (1usize, 2usize);
    let mut plan: Vec<usize> = vec![];
    for s in 0..nsyms.min(base.len()) {
        plan.extend(std::iter::repeat(base[s]).take(a));
        let c = a + b;
        a = b;
        b = c;
    }
    for i in (1..plan.len()).rev() {
        let j = (g.next() as usize) % (i + 1);
        plan.swap(i, j);
    }
    for d in plan {
        let d = d.max(4);
        let p = v.len() - d;
        for k in 0..4 {
            v.push(v[p + k]);
        }
        v.push((g.next() >> 5) as u8);
    }
    v
}

/// compressible noise (64-symbol alphabet, so Huffman coding pays and blocks are not stored) with ONE planted
/// repetition: `alen` bytes at `pos` repeat the bytes at `pos - d`; `tail` more noise bytes follow. Places a match
/// of a chosen distance at a chosen absolute position (e.g. straddling the point where the window slides).
pub fn far_at(pos: usize, d: usize, alen: usize, tail: usize) -> Vec<u8> {
    let mut g = Lcg(4242 + (pos as u32).wrapping_mul(31) + d as u32);
    let mut v: Vec<u8> = (0..pos).map(|_| 0x30 + (g.next() >> 7) as u8 % 64).collect();
    for k in 0..alen {
        let b = v[pos - d + k];
        v.push(b);
    }
    v.extend((0..tail).map(|_| 0x30 + (g.next() >> 7) as u8 % 64));
    v
}

/// 7-bit noise: incompressible by matching, compressible by Huffman coding (8 -> ~7 bits)
pub fn noise7(seed: u32, n: usize) -> Vec<u8> {
    let mut g = Lcg(seed);
    (0..n).map(|_| (g.next() >> 9) as u8 & 0x7f).collect()
}

/// Input that puts the match finder exactly at its tuning thresholds: an old candidate of `long_len` bytes starting
/// with "abcd", then the source of a shorter match ('z' + the first prev_len-1 bytes of it), then `decoys` strings
/// that share the hashed 4-byte prefix but match no further, then 'z' + the long string. At the lazy-evaluation
/// step the previous match has length exactly `prev_len` (against good_match / max_lazy / nice_length) and the long
/// candidate sits `decoys` entries down the hash chain (against max_chain_length and its quarter).
pub fn chain_threshold(prev_len: usize, long_len: usize, decoys: usize) -> Vec<u8> {
    let mut g = Lcg(0x1234_5678 ^ (prev_len as u32) << 8 ^ decoys as u32);
    let mut junk = |v: &mut Vec<u8>, n: usize| {
        for _ in 0..n {
            v.push(0x80 | (g.next() >> 9) as u8);
        }
    };
    let mut long: Vec<u8> = b"abcd".to_vec();
    for i in 0..long_len.saturating_sub(4) {
        long.push(b'A' + (i % 58) as u8);
    }
    let mut v = vec![];
    junk(&mut v, 16);
    v.extend_from_slice(&long);
    junk(&mut v, 16);
    v.push(b'z');
    v.extend_from_slice(&long[..prev_len.saturating_sub(1).min(long.len())]);
    junk(&mut v, 16);
    for _ in 0..decoys {
        v.extend_from_slice(b"abcd");
        junk(&mut v, 6);
    }
    junk(&mut v, 16);
    v.push(b'z');
    v.extend_from_slice(&long);
    junk(&mut v, 16);
    v
}

/// Input for the "good enough, stop searching" threshold (nice_length): a string R of `far_len` bytes, later its first
/// `near_len` bytes followed by something else, later R again. At the last R the nearest candidate on the hash chain
/// matches exactly `near_len` bytes and the older one `far_len`: the search may stop at the near one only if
/// near_len >= nice_length of the level.
pub fn nice_threshold(near_len: usize, far_len: usize) -> Vec<u8> {
    let mut g = Lcg(0x0bad_5eed ^ (near_len as u32) << 9 ^ far_len as u32);
    let mut junk = |v: &mut Vec<u8>, n: usize| {
        for _ in 0..n {
            v.push(0x80 | (g.next() >> 9) as u8);
        }
    };
    let r: Vec<u8> = (0..far_len as u32).map(|i| 0x20 + ((i.wrapping_mul(2654435761) >> 7) % 0x5f) as u8).collect();
    let mut v = vec![];
    junk(&mut v, 40);
    v.extend_from_slice(&r);
    junk(&mut v, 23);
    v.extend_from_slice(&r[..near_len.min(r.len())]);
    junk(&mut v, 31);
    v.extend_from_slice(&r);
    junk(&mut v, 300);
    v
}

/// all strings over the first k symbols of `alphabet` with length <= max_len, shortest first
pub fn tiny_strings(alphabet: &[u8], max_len: usize) -> Vec<Vec<u8>> {
    let k = alphabet.len();
    let mut out = vec![vec![]];
    let mut prev: Vec<Vec<u8>> = vec![vec![]];
    for _ in 0..max_len {
        let mut next = Vec::with_capacity(prev.len() * k);
        for p in &prev {
            for &a in alphabet {
                let mut s = p.clone();
                s.push(a);
                next.push(s);
            }
        }
        out.extend(next.iter().cloned());
        prev = next;
    }
    out
}

#[derive(Clone, Debug)]
pub struct Named {
    pub name: String,
    pub data: Vec<u8>,
}

fn named(name: String, data: Vec<u8>) -> Named {
    Named { name, data }
}

/// I-shape(w, m): structured strings that force each internal boundary of a (window w, lit_bufsize m) encoder.
/// `rich` selects the thorough-tier superset.
pub fn shapes(w: usize, m: usize, rich: bool) -> Vec<Named> {
    let max_dist = w - 262;
    let mut v = vec![];
    let mut lens: Vec<usize> = vec![0, 1, 2, 3, 4, 8, 9, 257, 258, 259, 260, 261, 262];
    lens.extend([m - 2, m - 1, m, m + 1, w - 1, w, w + 1, w + max_dist - 1, w + max_dist, w + max_dist + 1, 2 * w - 1, 2 * w, 2 * w + 1, 3 * w + 17]);
    lens.sort();
    lens.dedup();
    let main_lens: Vec<usize> = if rich { lens.clone() } else { vec![0, 1, 3, 9, 258, 262, m - 1, m + 1, w, w + max_dist + 1, 2 * w + 1, 3 * w + 17] };
    for &n in &main_lens {
        v.push(named(format!("rep(0x61,{n})"), rep(0x61, n)));
    }
    for &n in &main_lens {
        if n >= 3 {
            v.push(named(format!("lcg({n})"), lcg_bytes(1, n)));
            v.push(named(format!("text({n})"), text(3, n)));
        }
    }
    let periods: Vec<usize> = if rich {
        vec![1, 2, 3, 4, 5, 7, 8, 9, 15, 16, 17, 31, 32, 33, 255, 256, 257, 258, 259, 260, w - 263, w - 262, w - 261, w - 260, w - 1, w, w + 1]
    } else {
        // (7 / 15 / 31 / 63: one less than the widths of the decoders' chunked copies)
        vec![2, 3, 4, 7, 15, 17, 31, 63, 258, 259, w - 262, w - 261, w]
    };
    for &p in &periods {
        v.push(named(format!("periodic({p},{})", 2 * w + 100), periodic(p, 2 * w + 100)));
    }
    for d in [max_dist - 1, max_dist, max_dist + 1, w - 1, w, w + 1] {
        v.push(named(format!("far({d})"), far(d, 40)));
    }
    // a match of (nearly) the largest distance whose second occurrence sits where the window slides for the first
    // time (input position 2w - 262 +- 2), in an input short enough (< 2w) that the slide happens exactly there
    for d in if rich { vec![max_dist - 1, max_dist, max_dist + 1] } else { vec![max_dist - 1, max_dist] } {
        for pos in if rich { (2 * w - 266..=2 * w - 259).collect::<Vec<_>>() } else { vec![2 * w - 264, 2 * w - 263, 2 * w - 262] } {
            v.push(named(format!("far_at({pos},{d})"), far_at(pos, d, 9, 12)));
        }
    }
    // code-length runs: inputs whose literal set leaves a run of exactly g unused symbols in the literal/length code
    // (before the first used literal, between two used literals, between the last literal and the end-of-block
    // symbol), g around every limit of the run-length symbols 17 (3..=10 zeros) and 18 (11..=138 zeros)
    let gaps: Vec<usize> = if rich { vec![2, 3, 4, 10, 11, 12, 137, 138, 139, 140, 141] } else { vec![3, 11, 138, 139, 140] };
    for &g in &gaps {
        let sets: [(&str, Vec<u8>); 3] = [
            ("leading", (g..g + 13).map(|x| x as u8).collect()),
            ("interior", std::iter::once(0u8).chain((g + 1..g + 14).map(|x| x as u8)).collect()),
            ("before-eob", (256 - g - 13..256 - g).map(|x| x as u8).collect()),
        ];
        for (kind, set) in sets {
            let d: Vec<u8> = lcg_bytes(g as u32 + 3, 420).iter().map(|&b| set[(b as usize * 7 / 5) % set.len()]).collect();
            v.push(named(format!("codelen-gap({kind},{g})"), d));
        }
    }
    // block-type switches
    let mut mix = rep(0x20, w / 2);
    mix.extend(lcg_bytes(11, w));
    mix.extend(text(5, w));
    mix.extend(rep(0x00, 300));
    v.push(named(format!("mix(rep,lcg,text,rep;{})", mix.len()), mix));
    let mut mix2 = text(9, m * 2);
    mix2.extend(nine_bit(m + 5));
    mix2.extend(ramp(600));
    v.push(named(format!("mix(text,ninebit,ramp;{})", mix2.len()), mix2));
    v
}

/// positions worth splitting an input of length n at, for (w, m)
pub fn lattice(n: usize, w: usize, m: usize) -> Vec<usize> {
    let max_dist = w - 262;
    let mut c: Vec<usize> = vec![0, 1, 2, 3, 4, 5, 8, 9, 16, 17, 255, 256, 257, 258, 259, 260, 261, 262, 263];
    for base in [m, 2 * m, 3 * m, w, w + max_dist, 2 * w, 2 * w - 262, 3 * w, w / 2, n / 2, n] {
        for d in -2i64..=2 {
            let x = base as i64 + d;
            if x >= 0 {
                c.push(x as usize);
            }
        }
    }
    c.retain(|&x| x <= n);
    c.sort();
    c.dedup();
    c
}
