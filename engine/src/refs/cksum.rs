//! R1: checksums by definition. CRC-32 (reflected poly 0xEDB88320, init/xorout 0xFFFFFFFF) bit at a
//! time; Adler-32 with `% 65521` after every byte; combine by algebra that is itself validated
//! against the definition (`ck(A‖B)` recomputed) for all small lengths at start-up.

pub const ADLER_BASE: u32 = 65521;

pub fn crc32_bitwise(start: u32, data: &[u8]) -> u32 {
    let mut c = !start;
    for &b in data {
        c ^= b as u32;
        for _ in 0..8 {
            c = if c & 1 != 0 { (c >> 1) ^ 0xEDB8_8320 } else { c >> 1 };
        }
    }
    !c
}

fn table() -> &'static [u32; 256] {
    static T: std::sync::OnceLock<[u32; 256]> = std::sync::OnceLock::new();
    T.get_or_init(|| {
        let mut t = [0u32; 256];
        for i in 0..256u32 {
            let mut c = i;
            for _ in 0..8 {
                c = if c & 1 != 0 { (c >> 1) ^ 0xEDB8_8320 } else { c >> 1 };
            }
            t[i as usize] = c;
        }
        t
    })
}

/// byte-at-a-time table form of the same definition (the table is generated from the bitwise rule)
pub fn crc32(start: u32, data: &[u8]) -> u32 {
    let t = table();
    let mut c = !start;
    for &b in data {
        c = t[((c ^ b as u32) & 0xff) as usize] ^ (c >> 8);
    }
    !c
}

pub fn adler32(start: u32, data: &[u8]) -> u32 {
    let mut a = start & 0xffff;
    let mut b = (start >> 16) & 0xffff;
    for &x in data {
        a = (a + x as u32) % ADLER_BASE;
        b = (b + a) % ADLER_BASE;
    }
    (b << 16) | a
}

/// Adler-32 of A‖B from adler(A), adler(B) (both started at 1) and |B|, straight from the
/// definition: a = a1 + a2 - 1, b = b1 + b2 + |B|·(a1 - 1)  (mod 65521).
pub fn adler32_combine(ad1: u32, ad2: u32, len2: u64) -> u32 {
    let m = ADLER_BASE as u128;
    let (a1, b1) = ((ad1 & 0xffff) as u128, (ad1 >> 16) as u128);
    let (a2, b2) = ((ad2 & 0xffff) as u128, (ad2 >> 16) as u128);
    let a = (a1 + a2 + m - 1) % m;
    let b = (b1 + b2 + (len2 as u128 % m) * ((a1 + m - 1) % m)) % m;
    ((b as u32) << 16) | a as u32
}

// GF(2) polynomial arithmetic in the reflected representation, bit-serial.
fn gf2_mul(a: u32, b: u32) -> u32 {
    // reflected: bit 31 is x^0. multiply a(x)*b(x) mod p(x)
    let mut p = 0u32;
    let mut b = b;
    for i in 0..32 {
        if a & (1u32 << (31 - i)) != 0 {
            p ^= b;
        }
        // b *= x
        b = if b & 1 != 0 { (b >> 1) ^ 0xEDB8_8320 } else { b >> 1 };
    }
    p
}

/// x^(8·len2) mod p, reflected
pub fn crc32_shift_op(len2: u64) -> u32 {
    // x^8 reflected: x^0 is 1<<31, x^8 is 1<<23
    let mut result = 1u32 << 31;
    let mut base = 1u32 << 23;
    let mut n = len2;
    while n > 0 {
        if n & 1 != 0 {
            result = gf2_mul(result, base);
        }
        base = gf2_mul(base, base);
        n >>= 1;
    }
    result
}

/// crc(A‖B) from crc(A), crc(B), |B|: the conditioning cancels, leaving crc1·x^(8|B|) ⊕ crc2.
pub fn crc32_combine(crc1: u32, crc2: u32, len2: u64) -> u32 {
    gf2_mul(crc32_shift_op(len2), crc1) ^ crc2
}

/// self-test: table form == bitwise form; combine algebra == recomputation on all small sizes
pub fn self_test() -> Result<(), String> {
    let mut data = vec![0u8; 700];
    let mut x = 12345u32;
    for d in data.iter_mut() {
        x = x.wrapping_mul(1664525).wrapping_add(1013904223);
        *d = (x >> 24) as u8;
    }
    for len in [0usize, 1, 2, 3, 7, 64, 255, 700] {
        for start in [0u32, 1, 0xffff_ffff, 0xdead_beef] {
            if crc32(start, &data[..len]) != crc32_bitwise(start, &data[..len]) {
                return Err("R1 crc table form disagrees with bitwise form".into());
            }
        }
    }
    if crc32(0, b"123456789") != 0xCBF4_3926 {
        return Err("R1 crc32 check value".into());
    }
    if adler32(1, b"Wikipedia") != 0x11E6_0398 {
        return Err("R1 adler32 check value".into());
    }
    for la in 0..40 {
        for lb in 0..40 {
            let a = &data[..la];
            let b = &data[100..100 + lb];
            let mut ab = a.to_vec();
            ab.extend_from_slice(b);
            if crc32_combine(crc32(0, a), crc32(0, b), lb as u64) != crc32(0, &ab) {
                return Err(format!("R1 crc combine algebra fails at {la},{lb}"));
            }
            if adler32_combine(adler32(1, a), adler32(1, b), lb as u64) != adler32(1, &ab) {
                return Err(format!("R1 adler combine algebra fails at {la},{lb}"));
            }
        }
    }
    Ok(())
}
