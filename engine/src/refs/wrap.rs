//! R3: RFC 1950 / RFC 1952 header + trailer writer and parser, written from the RFCs.

use super::cksum;
use super::inflate_ref::{inflate_raw_at, RefOpts, RefResult};

#[derive(Clone, Debug, Default, PartialEq, Eq)]
pub struct GzFields {
    pub text: bool,
    pub mtime: u32,
    pub xfl: u8,
    pub os: u8,
    pub extra: Option<Vec<u8>>,
    pub name: Option<Vec<u8>>,    // without the terminating NUL
    pub comment: Option<Vec<u8>>, // without the terminating NUL
    pub hcrc: bool,
    /// the C int handed to deflateSetHeader when not 0 (any non-zero value requests a header CRC: -1, 2, i32::MIN);
    /// `hcrc` must then be true
    pub hcrc_val: i32,
}

impl GzFields {
    pub fn flg(&self) -> u8 {
        (self.text as u8) | (self.hcrc as u8) << 1 | (self.extra.is_some() as u8) << 2 | (self.name.is_some() as u8) << 3 | (self.comment.is_some() as u8) << 4
    }
    /// RFC 1952 member header
    pub fn write(&self) -> Vec<u8> {
        let mut h = vec![0x1f, 0x8b, 8, self.flg()];
        h.extend_from_slice(&self.mtime.to_le_bytes());
        h.push(self.xfl);
        h.push(self.os);
        if let Some(e) = &self.extra {
            h.extend_from_slice(&(e.len() as u16).to_le_bytes());
            h.extend_from_slice(e);
        }
        if let Some(n) = &self.name {
            h.extend_from_slice(n);
            h.push(0);
        }
        if let Some(c) = &self.comment {
            h.extend_from_slice(c);
            h.push(0);
        }
        if self.hcrc {
            let c = cksum::crc32(0, &h) as u16;
            h.extend_from_slice(&c.to_le_bytes());
        }
        h
    }
}

#[derive(Clone, Debug, PartialEq, Eq)]
pub enum HdrErr {
    /// not enough bytes yet
    Short,
    BadMagic,
    BadMethod,
    ReservedFlags,
    BadHcrc,
    BadFcheck,
    BadWindow,
}

/// parse a gzip member header; returns (fields, header length, stored hcrc ok)
pub fn parse_gzip_header(d: &[u8]) -> Result<(GzFields, usize), HdrErr> {
    if d.len() < 2 {
        return Err(HdrErr::Short);
    }
    if d[0] != 0x1f || d[1] != 0x8b {
        return Err(HdrErr::BadMagic);
    }
    if d.len() < 3 {
        return Err(HdrErr::Short);
    }
    if d[2] != 8 {
        return Err(HdrErr::BadMethod);
    }
    if d.len() < 4 {
        return Err(HdrErr::Short);
    }
    let flg = d[3];
    if flg & 0xe0 != 0 {
        return Err(HdrErr::ReservedFlags);
    }
    if d.len() < 10 {
        return Err(HdrErr::Short);
    }
    let mut f = GzFields {
        text: flg & 1 != 0,
        mtime: u32::from_le_bytes([d[4], d[5], d[6], d[7]]),
        xfl: d[8],
        os: d[9],
        hcrc: flg & 2 != 0,
        ..Default::default()
    };
    let mut p = 10;
    if flg & 4 != 0 {
        if d.len() < p + 2 {
            return Err(HdrErr::Short);
        }
        let n = u16::from_le_bytes([d[p], d[p + 1]]) as usize;
        p += 2;
        if d.len() < p + n {
            return Err(HdrErr::Short);
        }
        f.extra = Some(d[p..p + n].to_vec());
        p += n;
    }
    if flg & 8 != 0 {
        let Some(z) = d[p..].iter().position(|&b| b == 0) else { return Err(HdrErr::Short) };
        f.name = Some(d[p..p + z].to_vec());
        p += z + 1;
    }
    if flg & 16 != 0 {
        let Some(z) = d[p..].iter().position(|&b| b == 0) else { return Err(HdrErr::Short) };
        f.comment = Some(d[p..p + z].to_vec());
        p += z + 1;
    }
    if flg & 2 != 0 {
        if d.len() < p + 2 {
            return Err(HdrErr::Short);
        }
        let stored = u16::from_le_bytes([d[p], d[p + 1]]);
        if stored != cksum::crc32(0, &d[..p]) as u16 {
            return Err(HdrErr::BadHcrc);
        }
        p += 2;
    }
    Ok((f, p))
}

#[derive(Clone, Debug, PartialEq, Eq)]
pub struct ZlibHdr {
    pub cinfo: u8,
    pub flevel: u8,
    pub fdict: bool,
    pub dictid: u32,
    pub len: usize,
}

pub fn write_zlib_header(cinfo: u8, flevel: u8, dictid: Option<u32>) -> Vec<u8> {
    let cmf = (cinfo << 4) | 8;
    let mut flg = (flevel << 6) | if dictid.is_some() { 0x20 } else { 0 };
    let rem = ((cmf as u16) << 8 | flg as u16) % 31;
    if rem != 0 {
        flg += (31 - rem) as u8;
    }
    let mut h = vec![cmf, flg];
    if let Some(id) = dictid {
        h.extend_from_slice(&id.to_be_bytes());
    }
    h
}

/// RFC 1950: CM == 8, CINFO <= 7, FCHECK multiple of 31
pub fn parse_zlib_header(d: &[u8]) -> Result<ZlibHdr, HdrErr> {
    if d.len() < 2 {
        return Err(HdrErr::Short);
    }
    if ((d[0] as u16) << 8 | d[1] as u16) % 31 != 0 {
        return Err(HdrErr::BadFcheck);
    }
    if d[0] & 0x0f != 8 {
        return Err(HdrErr::BadMethod);
    }
    let cinfo = d[0] >> 4;
    if cinfo > 7 {
        return Err(HdrErr::BadWindow);
    }
    let fdict = d[1] & 0x20 != 0;
    let mut h = ZlibHdr { cinfo, flevel: d[1] >> 6, fdict, dictid: 0, len: 2 };
    if fdict {
        if d.len() < 6 {
            return Err(HdrErr::Short);
        }
        h.dictid = u32::from_be_bytes([d[2], d[3], d[4], d[5]]);
        h.len = 6;
    }
    Ok(h)
}

pub fn zlib_trailer(data: &[u8], dict_start: u32) -> [u8; 4] {
    let _ = dict_start;
    cksum::adler32(1, data).to_be_bytes()
}

pub fn gzip_trailer(data: &[u8]) -> [u8; 8] {
    let mut t = [0u8; 8];
    t[..4].copy_from_slice(&cksum::crc32(0, data).to_le_bytes());
    t[4..].copy_from_slice(&(data.len() as u32).to_le_bytes());
    t
}

/// Outcome of decoding a whole wrapped stream with the reference models.
#[derive(Clone, Debug, PartialEq, Eq)]
pub enum Wrapped {
    /// complete valid stream occupying `used` bytes of the input
    Ok { out: Vec<u8>, used: usize, gz: Option<GzFields>, zhdr: Option<ZlibHdr> },
    /// more input needed; `out` is what is certainly decodable so far
    Short { out: Vec<u8> },
    /// invalid; `out` is what the reference decoded before the fault (an upper bound of what may be emitted)
    Bad { why: String, out: Vec<u8> },
    /// zlib stream demands a preset dictionary
    NeedDict { dictid: u32 },
}

fn deflate_part(d: &[u8], off: usize, opts: &RefOpts) -> Result<(Vec<u8>, usize), Wrapped> {
    match inflate_raw_at(d, off * 8, opts) {
        RefResult::Complete { out, bits_used, .. } => Ok((out, (bits_used + 7) / 8)),
        RefResult::NeedMore { out, .. } => Err(Wrapped::Short { out }),
        RefResult::Error { kind, out, .. } => Err(Wrapped::Bad { why: format!("{kind:?}"), out }),
    }
}

pub fn decode_raw(d: &[u8], opts: &RefOpts) -> Wrapped {
    match deflate_part(d, 0, opts) {
        Ok((out, used)) => Wrapped::Ok { out, used, gz: None, zhdr: None },
        Err(w) => w,
    }
}

/// `max_cinfo`: the largest CINFO the decoder accepts (windowBits-8; 7 for windowBits 15 or 0)
pub fn decode_zlib(d: &[u8], opts: &RefOpts, max_cinfo: u8) -> Wrapped {
    // the window size is judged from the first two bytes, before the dictionary id is read
    if d.len() >= 2 && ((d[0] as u16) << 8 | d[1] as u16) % 31 == 0 && d[0] & 0x0f == 8 && (d[0] >> 4) <= 7 && (d[0] >> 4) > max_cinfo {
        return Wrapped::Bad { why: "window size larger than configured".into(), out: vec![] };
    }
    let h = match parse_zlib_header(d) {
        Ok(h) => h,
        Err(HdrErr::Short) => return Wrapped::Short { out: vec![] },
        Err(e) => return Wrapped::Bad { why: format!("{e:?}"), out: vec![] },
    };
    if h.cinfo > max_cinfo {
        return Wrapped::Bad { why: "window size larger than configured".into(), out: vec![] };
    }
    if h.fdict && opts.dict.is_empty() {
        return Wrapped::NeedDict { dictid: h.dictid };
    }
    match deflate_part(d, h.len, opts) {
        Ok((out, used)) => {
            if d.len() < used + 4 {
                return Wrapped::Short { out };
            }
            if d[used..used + 4] != cksum::adler32(1, &out).to_be_bytes() {
                return Wrapped::Bad { why: "adler32 mismatch".into(), out };
            }
            Wrapped::Ok { out, used: used + 4, gz: None, zhdr: Some(h) }
        }
        Err(w) => w,
    }
}

pub fn decode_gzip(d: &[u8], opts: &RefOpts) -> Wrapped {
    let (f, hl) = match parse_gzip_header(d) {
        Ok(x) => x,
        Err(HdrErr::Short) => return Wrapped::Short { out: vec![] },
        Err(e) => return Wrapped::Bad { why: format!("{e:?}"), out: vec![] },
    };
    match deflate_part(d, hl, opts) {
        Ok((out, used)) => {
            if d.len() < used + 8 {
                // zlib checks the crc as soon as its 4 bytes are there
                if d.len() >= used + 4 && d[used..used + 4] != cksum::crc32(0, &out).to_le_bytes() {
                    return Wrapped::Bad { why: "crc32 mismatch".into(), out };
                }
                return Wrapped::Short { out };
            }
            if d[used..used + 4] != cksum::crc32(0, &out).to_le_bytes() {
                return Wrapped::Bad { why: "crc32 mismatch".into(), out };
            }
            if d[used + 4..used + 8] != (out.len() as u32).to_le_bytes() {
                return Wrapped::Bad { why: "length mismatch".into(), out };
            }
            Wrapped::Ok { out, used: used + 8, gz: Some(f), zhdr: None }
        }
        Err(w) => w,
    }
}
