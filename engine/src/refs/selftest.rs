//! Start-up cross-validation of the reference models against each other and against zlib-ng:
//! every R4-built valid stream decodes under R2 to its construction tokens and under zlib-ng to the
//! same bytes; R3 headers are accepted by zlib-ng. A failure is a machinery error, never a verdict.

use super::builder::*;
use super::inflate_ref::*;
use super::wrap;
use crate::api::*;

pub fn ng_inflate(wb: i32, data: &[u8], cap: usize) -> (i32, Vec<u8>, usize) {
    unsafe {
        let mut s = Strm::plain();
        let r = Ng::inflateInit2_(s.p(), wb, Ng::zlibVersion(), STREAM_SIZE);
        assert_eq!(r, Z_OK);
        let mut out = vec![0u8; cap];
        s.z.next_in = data.as_ptr();
        s.z.avail_in = data.len() as u32;
        s.z.next_out = out.as_mut_ptr();
        s.z.avail_out = cap as u32;
        let r = Ng::inflate(s.p(), Z_FINISH);
        let produced = cap - s.z.avail_out as usize;
        let used = data.len() - s.z.avail_in as usize;
        Ng::inflateEnd(s.p());
        out.truncate(produced);
        (r, out, used)
    }
}

fn sample_plans() -> Vec<Vec<Plan>> {
    let text = b"abcabcabcabc hello hello hello".to_vec();
    let toks: Vec<Tok> = vec![Tok::Lit(b'a'), Tok::Lit(b'b'), Tok::Lit(b'c'), Tok::Match(9, 3), Tok::Lit(b' '), Tok::Lit(0xff), Tok::Match(258, 1), Tok::Match(3, 13), Tok::Match(10, 257)];
    let mut v = vec![
        vec![Plan::Stored { data: text.clone(), bad_nlen: false }],
        vec![Plan::Stored { data: vec![], bad_nlen: false }],
        vec![Plan::Fixed(text.iter().map(|&b| Tok::Lit(b)).collect())],
        vec![Plan::Fixed(toks.clone())],
        vec![Plan::DynamicAuto(toks.clone())],
        vec![Plan::DynamicAuto(vec![])],
        vec![Plan::DynamicAuto(vec![Tok::Lit(7)])],
        vec![Plan::Fixed(vec![]), Plan::Stored { data: text.clone(), bad_nlen: false }, Plan::DynamicAuto(toks.clone()), Plan::Fixed(vec![Tok::Match(258, 32)])],
        vec![Plan::DynamicAuto((0..=255u8).map(Tok::Lit).collect())],
    ];
    // a long one crossing 32 KiB with far matches
    let mut long = vec![];
    for i in 0..40000u32 {
        long.push(Tok::Lit((i * 7 % 251) as u8));
    }
    long.push(Tok::Match(258, 32768));
    long.push(Tok::Match(3, 32767));
    v.push(vec![Plan::DynamicAuto(long)]);
    // explicit lengths: 15-bit codes
    let mut ll = vec![0u8; 286];
    // a complete code with lengths 1,2,...,14,15,15 on 16 symbols including 256
    let syms = [0usize, 1, 2, 3, 4, 5, 6, 7, 8, 9, 10, 11, 12, 13, 256, 285];
    for (i, &s) in syms.iter().enumerate() {
        ll[s] = if i < 15 { (i + 1) as u8 } else { 15 };
    }
    let dl = vec![1u8, 1];
    v.push(vec![Plan::Dynamic { toks: vec![Tok::Lit(0), Tok::Lit(13), Tok::Match(258, 1), Tok::Match(258, 2), Tok::Lit(5)], ll_lens: ll, d_lens: dl, rle: Rle::Greedy, hclen_trim: true }]);
    v
}

pub fn self_test() -> Result<(), String> {
    for (i, plans) in sample_plans().iter().enumerate() {
        let bytes = build(plans);
        let want = expected(plans, &[]).ok_or("sample plan without defined meaning")?;
        match inflate_raw(&bytes, &RefOpts::zlib()) {
            RefResult::Complete { out, bits_used, .. } => {
                if out != want {
                    return Err(format!("R2 decodes R4 sample {i} to different bytes"));
                }
                if (bits_used + 7) / 8 != bytes.len() {
                    return Err(format!("R2 bit accounting off on sample {i}: {bits_used} bits, {} bytes", bytes.len()));
                }
            }
            other => return Err(format!("R2 does not accept R4 sample {i}: {}", other.tag())),
        }
        let (r, out, used) = ng_inflate(-15, &bytes, want.len() + 16);
        if r != Z_STREAM_END || out != want || used != bytes.len() {
            return Err(format!("zlib-ng disagrees with R4 sample {i}: rc {r}, {} bytes out (want {}), used {used}/{}", out.len(), want.len(), bytes.len()));
        }
        // wrappers
        let mut z = wrap::write_zlib_header(7, 2, None);
        z.extend_from_slice(&bytes);
        z.extend_from_slice(&wrap::zlib_trailer(&want, 1));
        let (r, out, used) = ng_inflate(15, &z, want.len() + 16);
        if r != Z_STREAM_END || out != want || used != z.len() {
            return Err(format!("zlib-ng rejects R3 zlib wrapper on sample {i}: rc {r}"));
        }
        match wrap::decode_zlib(&z, &RefOpts::zlib(), 7) {
            wrap::Wrapped::Ok { out, used, .. } if out == want && used == z.len() => {}
            _ => return Err(format!("R3 zlib decode fails on sample {i}")),
        }
        let f = wrap::GzFields { text: true, mtime: 0x1234_5678, xfl: 2, os: 3, extra: Some(vec![1, 2, 3]), name: Some(b"name".to_vec()), comment: Some(b"c".to_vec()), hcrc: true, hcrc_val: 0 };
        let mut g = f.write();
        g.extend_from_slice(&bytes);
        g.extend_from_slice(&wrap::gzip_trailer(&want));
        let (r, out, used) = ng_inflate(31, &g, want.len() + 16);
        if r != Z_STREAM_END || out != want || used != g.len() {
            return Err(format!("zlib-ng rejects R3 gzip wrapper on sample {i}: rc {r}"));
        }
        match wrap::decode_gzip(&g, &RefOpts::zlib()) {
            wrap::Wrapped::Ok { out, used, gz, .. } if out == want && used == g.len() && gz.as_ref() == Some(&f) => {}
            _ => return Err(format!("R3 gzip decode fails on sample {i}")),
        }
    }
    // a few invalid streams: verdicts of R2 and zlib-ng agree
    let bad: Vec<Vec<u8>> = vec![
        vec![0x07],                         // block type 3
        vec![0x01, 0x01, 0x00, 0x00, 0x00], // stored LEN/NLEN mismatch
        vec![0x73, 0x04, 0xe6, 0x73, 0x00], // 'A' then match dist 1000: too far back (fixed block)
        build(&[Plan::Fixed(vec![Tok::RawSym(286)])]),
    ];
    for (i, b) in bad.iter().enumerate() {
        let r2 = inflate_raw(b, &RefOpts::zlib());
        let (r, _, _) = ng_inflate(-15, b, 4096);
        let r2bad = matches!(r2, RefResult::Error { .. });
        if !r2bad || r != Z_DATA_ERROR {
            return Err(format!("invalid sample {i}: R2 {} vs zlib-ng rc {r}", r2.tag()));
        }
    }
    Ok(())
}
