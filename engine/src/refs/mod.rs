pub mod builder;
pub mod cksum;
pub mod inflate_ref;
pub mod selftest;
pub mod wrap;
