pub mod cksum;
