//! R2: a deliberately naive RFC 1951 decoder (puff-style canonical decoding, `Vec<u8>` history),
//! written from the RFC and from zlib's documented leniency rules, independent of zlib-rs.
//!
//! Modes:
//!  * non-strict ("zlib reading"): history limit 32 KiB irrespective of the announced window;
//!    an incomplete literal/length or distance code is accepted only when all its codes have
//!    length 1 (the RFC's "one distance code" case), an all-zero distance code is accepted.
//!  * strict (C05): history limited to `window` (+ dictionary), every used code must be complete
//!    (except the RFC's single one-bit distance code), used for what the encoder emits.

pub const MAXBITS: usize = 15;

#[derive(Clone, Copy, Debug, PartialEq, Eq)]
pub enum ErrKind {
    BadBlockType,
    StoredLenMismatch,
    TooManySymbols,
    BadCodeLengthsSet,
    BadRepeat,
    MissingEob,
    BadLitLenSet,
    BadDistSet,
    BadLitLenCode,
    BadDistCode,
    TooFarBack,
    /// strict only: back-reference further than the announced window
    BeyondWindow,
    /// strict only: a code-length code / tree longer than allowed, or an incomplete code
    StrictIncomplete,
}

#[derive(Clone, Debug, PartialEq, Eq)]
pub struct BlockInfo {
    pub btype: u8,
    pub last: bool,
    pub start_bit: usize,
    pub end_bit: usize,
    pub out_start: usize,
    pub out_end: usize,
    pub max_dist: usize,
}

#[derive(Clone, Debug, PartialEq, Eq)]
pub enum RefResult {
    /// final block decoded; `bits_used` is the bit position right after its end-of-block symbol
    Complete { out: Vec<u8>, bits_used: usize, blocks: Vec<BlockInfo> },
    Error { kind: ErrKind, bit_pos: usize, out: Vec<u8>, blocks: Vec<BlockInfo> },
    /// input exhausted before the final block ended
    NeedMore { out: Vec<u8>, blocks: Vec<BlockInfo>, /// bit position of the last fully decoded symbol boundary
        clean_bit: usize },
}

impl RefResult {
    pub fn out(&self) -> &Vec<u8> {
        match self {
            RefResult::Complete { out, .. } | RefResult::Error { out, .. } | RefResult::NeedMore { out, .. } => out,
        }
    }
    pub fn blocks(&self) -> &Vec<BlockInfo> {
        match self {
            RefResult::Complete { blocks, .. } | RefResult::Error { blocks, .. } | RefResult::NeedMore { blocks, .. } => blocks,
        }
    }
    pub fn tag(&self) -> String {
        match self {
            RefResult::Complete { out, bits_used, .. } => format!("Complete(out={}, bits={})", out.len(), bits_used),
            RefResult::Error { kind, bit_pos, out, .. } => format!("Error({kind:?} at bit {bit_pos}, out={})", out.len()),
            RefResult::NeedMore { out, .. } => format!("NeedMore(out={})", out.len()),
        }
    }
}

#[derive(Clone, Debug)]
pub struct RefOpts {
    pub strict: bool,
    /// history limit in bytes (32768 for the zlib reading; the announced window in strict mode)
    pub window: usize,
    /// preset dictionary (history before the first output byte)
    pub dict: Vec<u8>,
    /// safety cap on output size
    pub max_out: usize,
}

impl RefOpts {
    pub fn zlib() -> RefOpts {
        RefOpts { strict: false, window: 32768, dict: vec![], max_out: 1 << 26 }
    }
    pub fn strict(window: usize) -> RefOpts {
        RefOpts { strict: true, window, dict: vec![], max_out: 1 << 26 }
    }
}

struct Bits<'a> {
    data: &'a [u8],
    pos: usize, // bit position
}

struct Eof;

impl<'a> Bits<'a> {
    #[inline]
    fn bit(&mut self) -> Result<u32, Eof> {
        let byte = self.pos >> 3;
        if byte >= self.data.len() {
            return Err(Eof);
        }
        let b = (self.data[byte] >> (self.pos & 7)) & 1;
        self.pos += 1;
        Ok(b as u32)
    }
    fn bits(&mut self, n: usize) -> Result<u32, Eof> {
        let mut v = 0u32;
        for i in 0..n {
            v |= self.bit()? << i;
        }
        Ok(v)
    }
}

/// canonical Huffman code in puff's representation
struct Huff {
    count: [u16; MAXBITS + 1],
    symbol: Vec<u16>,
    /// >0 incomplete, 0 complete, <0 over-subscribed
    left: i32,
    max_len: usize,
    nonzero: usize,
}

fn construct(lengths: &[u8]) -> Huff {
    let mut count = [0u16; MAXBITS + 1];
    for &l in lengths {
        count[l as usize] += 1;
    }
    let nonzero = lengths.len() - count[0] as usize;
    let mut left: i32 = 1;
    let mut over = false;
    for len in 1..=MAXBITS {
        left <<= 1;
        left -= count[len] as i32;
        if left < 0 {
            over = true;
            break;
        }
    }
    let mut offs = [0u16; MAXBITS + 2];
    for len in 1..MAXBITS {
        offs[len + 1] = offs[len] + count[len];
    }
    let mut symbol = vec![0u16; lengths.len()];
    if !over {
        for (sym, &l) in lengths.iter().enumerate() {
            if l != 0 {
                symbol[offs[l as usize] as usize] = sym as u16;
                offs[l as usize] += 1;
            }
        }
    }
    let max_len = (1..=MAXBITS).rev().find(|&l| count[l] != 0).unwrap_or(0);
    Huff { count, symbol, left: if over { -1 } else { left }, max_len, nonzero }
}

enum Dec {
    Sym(u16),
    Invalid,
}

fn decode(b: &mut Bits, h: &Huff) -> Result<Dec, Eof> {
    let mut code: i32 = 0;
    let mut first: i32 = 0;
    let mut index: i32 = 0;
    for len in 1..=MAXBITS {
        code |= b.bit()? as i32;
        let count = h.count[len] as i32;
        if code - count < first {
            return Ok(Dec::Sym(h.symbol[(index + (code - first)) as usize]));
        }
        index += count;
        first += count;
        first <<= 1;
        code <<= 1;
        if len >= h.max_len {
            break;
        }
    }
    Ok(Dec::Invalid)
}

const LBASE: [u16; 29] = [3, 4, 5, 6, 7, 8, 9, 10, 11, 13, 15, 17, 19, 23, 27, 31, 35, 43, 51, 59, 67, 83, 99, 115, 131, 163, 195, 227, 258];
const LEXT: [u8; 29] = [0, 0, 0, 0, 0, 0, 0, 0, 1, 1, 1, 1, 2, 2, 2, 2, 3, 3, 3, 3, 4, 4, 4, 4, 5, 5, 5, 5, 0];
const DBASE: [u16; 30] = [1, 2, 3, 4, 5, 7, 9, 13, 17, 25, 33, 49, 65, 97, 129, 193, 257, 385, 513, 769, 1025, 1537, 2049, 3073, 4097, 6145, 8193, 12289, 16385, 24577];
const DEXT: [u8; 30] = [0, 0, 0, 0, 1, 1, 2, 2, 3, 3, 4, 4, 5, 5, 6, 6, 7, 7, 8, 8, 9, 9, 10, 10, 11, 11, 12, 12, 13, 13];
const ORDER: [usize; 19] = [16, 17, 18, 0, 8, 7, 9, 6, 10, 5, 11, 4, 12, 3, 13, 2, 14, 1, 15];

pub fn fixed_lengths() -> (Vec<u8>, Vec<u8>) {
    let mut l = vec![0u8; 288];
    for (i, x) in l.iter_mut().enumerate() {
        *x = if i < 144 {
            8
        } else if i < 256 {
            9
        } else if i < 280 {
            7
        } else {
            8
        };
    }
    (l, vec![5u8; 30])
}

enum Stop {
    Eof,
    Err(ErrKind),
}
impl From<Eof> for Stop {
    fn from(_: Eof) -> Stop {
        Stop::Eof
    }
}

struct Dstate<'a> {
    b: Bits<'a>,
    out: Vec<u8>,
    opts: &'a RefOpts,
    clean_bit: usize,
    block_max_dist: usize,
}

fn codes(s: &mut Dstate, lencode: &Huff, distcode: &Huff) -> Result<(), Stop> {
    loop {
        s.clean_bit = s.b.pos;
        let sym = match decode(&mut s.b, lencode)? {
            Dec::Sym(x) => x as usize,
            Dec::Invalid => return Err(Stop::Err(ErrKind::BadLitLenCode)),
        };
        if sym < 256 {
            if s.out.len() >= s.opts.max_out {
                return Err(Stop::Eof);
            }
            s.out.push(sym as u8);
        } else if sym == 256 {
            return Ok(());
        } else {
            let li = sym - 257;
            if li >= 29 {
                return Err(Stop::Err(ErrKind::BadLitLenCode));
            }
            let len = LBASE[li] as usize + s.b.bits(LEXT[li] as usize)? as usize;
            let ds = match decode(&mut s.b, distcode)? {
                Dec::Sym(x) => x as usize,
                Dec::Invalid => return Err(Stop::Err(ErrKind::BadDistCode)),
            };
            if ds >= 30 {
                return Err(Stop::Err(ErrKind::BadDistCode));
            }
            let dist = DBASE[ds] as usize + s.b.bits(DEXT[ds] as usize)? as usize;
            let hist = s.opts.dict.len() + s.out.len();
            if s.opts.strict && dist > s.opts.window {
                return Err(Stop::Err(ErrKind::BeyondWindow));
            }
            if dist > hist || dist > s.opts.window.max(32768) {
                return Err(Stop::Err(ErrKind::TooFarBack));
            }
            s.block_max_dist = s.block_max_dist.max(dist);
            if s.out.len() + len > s.opts.max_out {
                return Err(Stop::Eof);
            }
            for _ in 0..len {
                let pos = s.out.len();
                let byte = if dist > pos {
                    // reaches into the dictionary
                    let d = &s.opts.dict;
                    d[d.len() - (dist - pos)]
                } else {
                    s.out[pos - dist]
                };
                s.out.push(byte);
            }
        }
    }
}

fn dynamic(s: &mut Dstate) -> Result<(Huff, Huff), Stop> {
    let nlen = s.b.bits(5)? as usize + 257;
    let ndist = s.b.bits(5)? as usize + 1;
    let ncode = s.b.bits(4)? as usize + 4;
    if nlen > 286 || ndist > 30 {
        return Err(Stop::Err(ErrKind::TooManySymbols));
    }
    let mut cl = [0u8; 19];
    for &o in ORDER.iter().take(ncode) {
        cl[o] = s.b.bits(3)? as u8;
    }
    let clcode = construct(&cl);
    // zlib: the code-length code must be complete (no single-code exception for CODES) ...
    if clcode.left != 0 && clcode.nonzero != 0 {
        return Err(Stop::Err(ErrKind::BadCodeLengthsSet));
    }
    if s.opts.strict && clcode.nonzero == 0 {
        return Err(Stop::Err(ErrKind::StrictIncomplete));
    }
    let mut lengths = vec![0u8; nlen + ndist];
    let mut idx = 0;
    while idx < nlen + ndist {
        // ... except that a code-length code without any symbol passes zlib's table builder; every
        // code length then reads as 0 from one bit, and the missing end-of-block code is reported later
        if clcode.nonzero == 0 {
            let _ = s.b.bit()?;
            lengths[idx] = 0;
            idx += 1;
            continue;
        }
        let sym = match decode(&mut s.b, &clcode)? {
            Dec::Sym(x) => x as usize,
            Dec::Invalid => return Err(Stop::Err(ErrKind::BadCodeLengthsSet)),
        };
        if sym < 16 {
            lengths[idx] = sym as u8;
            idx += 1;
        } else {
            let (val, rep) = match sym {
                16 => {
                    if idx == 0 {
                        // zlib needs the 2 extra bits before it reports the error
                        let _ = s.b.bits(2)?;
                        return Err(Stop::Err(ErrKind::BadRepeat));
                    }
                    (lengths[idx - 1], 3 + s.b.bits(2)? as usize)
                }
                17 => (0, 3 + s.b.bits(3)? as usize),
                _ => (0, 11 + s.b.bits(7)? as usize),
            };
            if idx + rep > nlen + ndist {
                return Err(Stop::Err(ErrKind::BadRepeat));
            }
            for _ in 0..rep {
                lengths[idx] = val;
                idx += 1;
            }
        }
    }
    if lengths[256] == 0 {
        return Err(Stop::Err(ErrKind::MissingEob));
    }
    let lencode = construct(&lengths[..nlen]);
    if lencode.left < 0 || (lencode.left > 0 && lencode.max_len != 1) {
        return Err(Stop::Err(ErrKind::BadLitLenSet));
    }
    let distcode = construct(&lengths[nlen..]);
    if distcode.left < 0 || (distcode.left > 0 && distcode.nonzero > 0 && distcode.max_len != 1) {
        return Err(Stop::Err(ErrKind::BadDistSet));
    }
    if s.opts.strict {
        // what an encoder may emit: complete codes, or exactly one 1-bit distance code, or no distance code at all
        if lencode.left != 0 && !(lencode.nonzero == 1 && lencode.max_len == 1) {
            return Err(Stop::Err(ErrKind::StrictIncomplete));
        }
        if distcode.left != 0 && !(distcode.nonzero <= 1) {
            return Err(Stop::Err(ErrKind::StrictIncomplete));
        }
    }
    Ok((lencode, distcode))
}

/// Decode a raw deflate stream starting at bit 0 of `data`.
pub fn inflate_raw(data: &[u8], opts: &RefOpts) -> RefResult {
    inflate_raw_at(data, 0, opts)
}

pub fn inflate_raw_at(data: &[u8], start_bit: usize, opts: &RefOpts) -> RefResult {
    let mut s = Dstate { b: Bits { data, pos: start_bit }, out: vec![], opts, clean_bit: start_bit, block_max_dist: 0 };
    let mut blocks: Vec<BlockInfo> = vec![];
    let (flen, fdist) = fixed_lengths();
    let fixed_l = construct(&flen);
    let fixed_d = construct(&fdist);
    loop {
        let start = s.b.pos;
        let out_start = s.out.len();
        s.clean_bit = start;
        s.block_max_dist = 0;
        let r: Result<bool, Stop> = (|| {
            let last = s.b.bit()? == 1;
            let btype = s.b.bits(2)? as u8;
            match btype {
                0 => {
                    s.b.pos = (s.b.pos + 7) & !7;
                    let len = s.b.bits(16)? as usize;
                    let nlen = s.b.bits(16)? as usize;
                    if len != (!nlen & 0xffff) {
                        return Err(Stop::Err(ErrKind::StoredLenMismatch));
                    }
                    let byte = s.b.pos >> 3;
                    let avail = data.len().saturating_sub(byte);
                    let take = len.min(avail);
                    if s.out.len() + take > s.opts.max_out {
                        return Err(Stop::Eof);
                    }
                    s.out.extend_from_slice(&data[byte..byte + take]);
                    s.b.pos += take * 8;
                    s.clean_bit = s.b.pos;
                    if take < len {
                        return Err(Stop::Eof);
                    }
                }
                1 => codes(&mut s, &fixed_l, &fixed_d)?,
                2 => {
                    let (l, d) = dynamic(&mut s)?;
                    codes(&mut s, &l, &d)?
                }
                _ => return Err(Stop::Err(ErrKind::BadBlockType)),
            }
            blocks.push(BlockInfo { btype, last, start_bit: start, end_bit: s.b.pos, out_start, out_end: s.out.len(), max_dist: s.block_max_dist });
            Ok(last)
        })();
        match r {
            Ok(true) => return RefResult::Complete { out: s.out, bits_used: s.b.pos, blocks },
            Ok(false) => continue,
            Err(Stop::Eof) => return RefResult::NeedMore { out: s.out, blocks, clean_bit: s.clean_bit },
            Err(Stop::Err(kind)) => return RefResult::Error { kind, bit_pos: s.b.pos, out: s.out, blocks },
        }
    }
}
