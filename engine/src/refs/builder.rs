//! R4: deflate stream builder. Token lists + block plans -> bits. The decoded meaning is known by
//! construction (`expected()`), independent of any decoder.

use super::inflate_ref::fixed_lengths;

#[derive(Clone, Copy, Debug, PartialEq, Eq)]
pub enum Tok {
    Lit(u8),
    /// (length 3..=258, distance 1..=32768)
    Match(u16, u16),
    /// raw literal/length symbol 0..=287 and optional raw distance symbol, for invalid-stream construction
    RawSym(u16),
    /// raw bits (value, count <= 16) written as they are, for invalid-stream construction (e.g. what follows a
    /// length symbol in a block that has no distance code)
    Bits(u16, u8),
}

#[derive(Clone, Debug, PartialEq, Eq)]
pub enum Plan {
    /// stored block carrying these bytes; `bad_nlen` corrupts the complement
    Stored { data: Vec<u8>, bad_nlen: bool },
    Fixed(Vec<Tok>),
    /// dynamic block with explicit code lengths (literal/length 0..nlen, distance 0..ndist) and an
    /// explicit way of run-length coding them
    Dynamic { toks: Vec<Tok>, ll_lens: Vec<u8>, d_lens: Vec<u8>, rle: Rle, hclen_trim: bool },
    /// dynamic block whose code lengths are derived from the tokens (valid, near-optimal not required)
    DynamicAuto(Vec<Tok>),
}

#[derive(Clone, Copy, Debug, PartialEq, Eq)]
pub enum Rle {
    /// every length sent literally (symbols 0..15 only)
    None,
    /// greedy use of 16/17/18
    Greedy,
}

#[derive(Default, Clone)]
pub struct BitW {
    pub bytes: Vec<u8>,
    pub nbits: usize,
}

impl BitW {
    pub fn bit_len(&self) -> usize {
        self.nbits
    }
    /// LSB-first field (header fields, extra bits)
    pub fn put(&mut self, mut v: u32, n: usize) {
        for _ in 0..n {
            let byte = self.nbits >> 3;
            if byte == self.bytes.len() {
                self.bytes.push(0);
            }
            self.bytes[byte] |= ((v & 1) as u8) << (self.nbits & 7);
            v >>= 1;
            self.nbits += 1;
        }
    }
    /// Huffman code: MSB of the code first
    pub fn put_code(&mut self, code: u32, len: usize) {
        for i in (0..len).rev() {
            self.put((code >> i) & 1, 1);
        }
    }
    pub fn align(&mut self) {
        while self.nbits & 7 != 0 {
            self.put(0, 1);
        }
    }
    pub fn finish(mut self) -> Vec<u8> {
        self.align();
        self.bytes
    }
}

/// canonical codes from lengths (RFC 1951 §3.2.2); works for any lengths, complete or not
pub fn canonical(lens: &[u8]) -> Vec<u32> {
    let mut bl_count = [0u32; 17];
    for &l in lens {
        bl_count[l as usize] += 1;
    }
    bl_count[0] = 0;
    let mut next = [0u32; 17];
    let mut code = 0u32;
    for bits in 1..=16 {
        code = (code + bl_count[bits - 1]) << 1;
        next[bits] = code;
    }
    lens.iter()
        .map(|&l| {
            if l == 0 {
                0
            } else {
                let c = next[l as usize];
                next[l as usize] += 1;
                c
            }
        })
        .collect()
}

const LBASE: [u16; 29] = [3, 4, 5, 6, 7, 8, 9, 10, 11, 13, 15, 17, 19, 23, 27, 31, 35, 43, 51, 59, 67, 83, 99, 115, 131, 163, 195, 227, 258];
const LEXT: [u8; 29] = [0, 0, 0, 0, 0, 0, 0, 0, 1, 1, 1, 1, 2, 2, 2, 2, 3, 3, 3, 3, 4, 4, 4, 4, 5, 5, 5, 5, 0];
const DBASE: [u16; 30] = [1, 2, 3, 4, 5, 7, 9, 13, 17, 25, 33, 49, 65, 97, 129, 193, 257, 385, 513, 769, 1025, 1537, 2049, 3073, 4097, 6145, 8193, 12289, 16385, 24577];
const DEXT: [u8; 30] = [0, 0, 0, 0, 1, 1, 2, 2, 3, 3, 4, 4, 5, 5, 6, 6, 7, 7, 8, 8, 9, 9, 10, 10, 11, 11, 12, 12, 13, 13];
const ORDER: [usize; 19] = [16, 17, 18, 0, 8, 7, 9, 6, 10, 5, 11, 4, 12, 3, 13, 2, 14, 1, 15];

/// (symbol, extra bits count, extra value) for a match length; 258 uses symbol 285
pub fn len_sym(len: u16) -> (u16, u8, u16) {
    assert!((3..=258).contains(&len));
    if len == 258 {
        return (285, 0, 0);
    }
    let mut i = 28;
    while LBASE[i] > len || i == 28 {
        i -= 1;
    }
    (257 + i as u16, LEXT[i], len - LBASE[i])
}

pub fn dist_sym(dist: u16) -> (u16, u8, u16) {
    assert!(dist >= 1);
    let mut i = 29;
    while DBASE[i] > dist {
        i -= 1;
    }
    (i as u16, DEXT[i], dist - DBASE[i])
}

fn emit_tokens(w: &mut BitW, toks: &[Tok], ll_lens: &[u8], d_lens: &[u8]) {
    let llc = canonical(ll_lens);
    let dc = canonical(d_lens);
    let put_ll = |w: &mut BitW, s: usize| {
        let l = *ll_lens.get(s).unwrap_or(&0);
        assert!(l != 0, "symbol {s} has no code in this block plan");
        w.put_code(llc[s], l as usize);
    };
    for t in toks {
        match *t {
            Tok::Lit(b) => put_ll(w, b as usize),
            Tok::RawSym(s) => put_ll(w, s as usize),
            Tok::Bits(v, n) => w.put(v as u32, n as usize),
            Tok::Match(len, dist) => {
                let (ls, le, lv) = len_sym(len);
                put_ll(w, ls as usize);
                w.put(lv as u32, le as usize);
                let (ds, de, dv) = dist_sym(dist);
                let l = d_lens[ds as usize];
                assert!(l != 0, "distance symbol {ds} has no code in this block plan");
                w.put_code(dc[ds as usize], l as usize);
                w.put(dv as u32, de as usize);
            }
        }
    }
    put_ll(w, 256);
}

/// run-length code a length vector into code-length-alphabet symbols (sym, extra bits, extra value)
pub fn rle_lengths(all: &[u8], rle: Rle) -> Vec<(u8, u8, u8)> {
    let mut out = vec![];
    let mut i = 0;
    while i < all.len() {
        let v = all[i];
        let mut run = 1;
        while i + run < all.len() && all[i + run] == v {
            run += 1;
        }
        if rle == Rle::None {
            out.push((v, 0, 0));
            i += 1;
            continue;
        }
        if v == 0 && run >= 3 {
            let r = run.min(138);
            if r >= 11 {
                out.push((18, 7, (r - 11) as u8));
            } else {
                out.push((17, 3, (r - 3) as u8));
            }
            i += r;
        } else if v != 0 && run >= 4 {
            out.push((v, 0, 0));
            let r = (run - 1).min(6);
            out.push((16, 2, (r - 3) as u8));
            i += 1 + r;
        } else {
            out.push((v, 0, 0));
            i += 1;
        }
    }
    out
}

/// length-limited (<=7 / <=15) code lengths from frequencies: simple package-free heuristic —
/// build by repeated halving so that the Kraft sum is exactly 1 (validity, not optimality, matters)
pub fn lengths_from_freq(freq: &[u32], max_len: u8) -> Vec<u8> {
    let used: Vec<usize> = (0..freq.len()).filter(|&i| freq[i] > 0).collect();
    let mut lens = vec![0u8; freq.len()];
    match used.len() {
        0 => return lens,
        1 => {
            lens[used[0]] = 1;
            return lens;
        }
        _ => {}
    }
    // sort by frequency descending; assign lengths of a complete "comb" code: 1,2,3,...,k,k  limited to max_len
    let mut order = used.clone();
    order.sort_by(|&a, &b| freq[b].cmp(&freq[a]).then(a.cmp(&b)));
    let n = order.len();
    // start from a balanced code then it is always complete: use lengths ceil/floor of log2(n)
    let mut k = 0u8;
    while (1usize << k) < n {
        k += 1;
    }
    assert!(k <= max_len);
    // number of symbols with length k-1: 2^k - n (those get the shorter code)
    let short = (1usize << k) - n;
    for (rank, &s) in order.iter().enumerate() {
        lens[s] = if rank < short { k - 1 } else { k };
    }
    if n == 2 {
        lens[order[0]] = 1;
        lens[order[1]] = 1;
    }
    lens
}

fn auto_lengths(toks: &[Tok]) -> (Vec<u8>, Vec<u8>) {
    let mut lf = vec![0u32; 286];
    let mut df = vec![0u32; 30];
    lf[256] = 1;
    for t in toks {
        match *t {
            Tok::Lit(b) => lf[b as usize] += 1,
            Tok::RawSym(s) => lf[s as usize] += 1,
            Tok::Bits(..) => {}
            Tok::Match(l, d) => {
                lf[len_sym(l).0 as usize] += 1;
                df[dist_sym(d).0 as usize] += 1;
            }
        }
    }
    let ll = lengths_from_freq(&lf, 15);
    let mut dl = lengths_from_freq(&df, 15);
    if dl.iter().all(|&x| x == 0) {
        dl[0] = 0; // no distance codes at all: HDIST = 1 with a zero length (allowed)
    }
    (ll, dl)
}

pub fn emit_dynamic_header(w: &mut BitW, ll_lens: &[u8], d_lens: &[u8], rle: Rle, hclen_trim: bool) {
    let nlen = ll_lens.len();
    let ndist = d_lens.len();
    let mut all = ll_lens.to_vec();
    all.extend_from_slice(d_lens);
    let syms = rle_lengths(&all, rle);
    let mut cf = vec![0u32; 19];
    for &(s, _, _) in &syms {
        cf[s as usize] += 1;
    }
    let mut cl = lengths_from_freq(&cf, 7);
    if cl.iter().filter(|&&x| x != 0).count() == 1 {
        // the code-length code must be complete: give a second (unused) symbol a 1-bit code
        let other = (0..19).find(|&i| cl[i] == 0).unwrap();
        cl[other] = 1;
    }
    let clc = canonical(&cl);
    let mut ncode = 19;
    if hclen_trim {
        while ncode > 4 && cl[ORDER[ncode - 1]] == 0 {
            ncode -= 1;
        }
    }
    w.put((nlen - 257) as u32, 5);
    w.put((ndist - 1) as u32, 5);
    w.put((ncode - 4) as u32, 4);
    for &o in ORDER.iter().take(ncode) {
        w.put(cl[o] as u32, 3);
    }
    for &(s, eb, ev) in &syms {
        w.put_code(clc[s as usize], cl[s as usize] as usize);
        w.put(ev as u32, eb as usize);
    }
}

pub fn emit_block(w: &mut BitW, plan: &Plan, last: bool) {
    w.put(last as u32, 1);
    match plan {
        Plan::Stored { data, bad_nlen } => {
            w.put(0, 2);
            w.align();
            let len = data.len() as u32;
            assert!(len <= 65535);
            w.put(len, 16);
            w.put(if *bad_nlen { !len ^ 1 } else { !len } & 0xffff, 16);
            for &b in data {
                w.put(b as u32, 8);
            }
        }
        Plan::Fixed(toks) => {
            w.put(1, 2);
            let (l, d) = fixed_lengths();
            emit_tokens(w, toks, &l, &d);
        }
        Plan::Dynamic { toks, ll_lens, d_lens, rle, hclen_trim } => {
            w.put(2, 2);
            emit_dynamic_header(w, ll_lens, d_lens, *rle, *hclen_trim);
            emit_tokens(w, toks, ll_lens, d_lens);
        }
        Plan::DynamicAuto(toks) => {
            w.put(2, 2);
            let (ll, dl) = auto_lengths(toks);
            // trim trailing zeros but keep >= 257 / >= 1
            let mut nl = 286;
            while nl > 257 && ll[nl - 1] == 0 {
                nl -= 1;
            }
            let mut nd = 30;
            while nd > 1 && dl[nd - 1] == 0 {
                nd -= 1;
            }
            emit_dynamic_header(w, &ll[..nl], &dl[..nd], Rle::Greedy, true);
            emit_tokens(w, toks, &ll[..nl], &dl[..nd]);
        }
    }
}

/// all blocks, the last one flagged BFINAL
pub fn build(plans: &[Plan]) -> Vec<u8> {
    let mut w = BitW::default();
    for (i, p) in plans.iter().enumerate() {
        emit_block(&mut w, p, i + 1 == plans.len());
    }
    w.finish()
}

/// returns (bytes, bit length)
pub fn build_bits(plans: &[Plan], mark_last: bool) -> (Vec<u8>, usize) {
    let mut w = BitW::default();
    for (i, p) in plans.iter().enumerate() {
        emit_block(&mut w, p, mark_last && i + 1 == plans.len());
    }
    let n = w.bit_len();
    (w.finish(), n)
}

fn toks_of(p: &Plan) -> Option<&Vec<Tok>> {
    match p {
        Plan::Fixed(t) | Plan::DynamicAuto(t) => Some(t),
        Plan::Dynamic { toks, .. } => Some(toks),
        Plan::Stored { .. } => None,
    }
}

/// The bytes the plans encode, by construction. `None` when a back-reference reaches before the
/// start of `dict ‖ output` or a raw symbol makes the meaning undefined.
pub fn expected(plans: &[Plan], dict: &[u8]) -> Option<Vec<u8>> {
    let mut out: Vec<u8> = vec![];
    for p in plans {
        if let Plan::Stored { data, bad_nlen } = p {
            if *bad_nlen {
                return None;
            }
            out.extend_from_slice(data);
            continue;
        }
        for t in toks_of(p).unwrap() {
            match *t {
                Tok::Lit(b) => out.push(b),
                Tok::RawSym(s) => {
                    if s < 256 {
                        out.push(s as u8)
                    } else {
                        return None;
                    }
                }
                Tok::Bits(..) => return None,
                Tok::Match(len, dist) => {
                    let dist = dist as usize;
                    if dist > dict.len() + out.len() {
                        return None;
                    }
                    for _ in 0..len {
                        let pos = out.len();
                        let b = if dist > pos { dict[dict.len() - (dist - pos)] } else { out[pos - dist] };
                        out.push(b);
                    }
                }
            }
        }
    }
    Some(out)
}

/// largest back-reference distance used
pub fn max_distance(plans: &[Plan]) -> usize {
    let mut m = 0;
    for p in plans {
        if let Some(ts) = toks_of(p) {
            for t in ts {
                if let Tok::Match(_, d) = t {
                    m = m.max(*d as usize);
                }
            }
        }
    }
    m
}
