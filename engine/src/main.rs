//! zverif — bounded exhaustive exploration of zlib-rs (see /verif/DESIGN.md).

mod api;
mod checks;
mod dfam;
mod drv;
mod engine;
mod hfam;
mod inputs;
mod machine;
mod mem;
mod optree;
mod refs;
mod zfam;
mod zgen;

use engine::*;

#[global_allocator]
static GLOBAL: mem::VerifGlobal = mem::VerifGlobal;

fn tier_of(s: &str) -> Tier {
    match s {
        "quick" => Tier::Quick,
        "thorough" => Tier::Thorough,
        _ => {
            eprintln!("unknown tier {s}");
            std::process::exit(2)
        }
    }
}

fn self_test() -> Result<(), String> {
    refs::cksum::self_test()?;
    refs::selftest::self_test()?;
    Ok(())
}

fn main() {
    let args: Vec<String> = std::env::args().collect();
    let cmd = args.get(1).map(|s| s.as_str()).unwrap_or("");
    match cmd {
        "run" => {
            let prop = &args[2];
            let tier = tier_of(&args[3]);
            let Some(chk) = checks::find(prop) else {
                eprintln!("unknown property {prop}");
                std::process::exit(2);
            };
            if let Err(e) = self_test() {
                eprintln!("MACHINERY FAILURE: reference-model self-test failed: {e}");
                std::process::exit(2);
            }
            std::process::exit(run_parent(chk.info, tier, None));
        }
        "worker" => {
            let chk = checks::find(&args[2]).expect("prop");
            let tier = tier_of(&args[3]);
            let shard: u64 = args[4].parse().unwrap();
            let n: u64 = args[5].parse().unwrap();
            let start: u64 = args[6].parse().unwrap();
            let slot = open_slot(&args[7], shard as usize);
            let mut ctx = Ctx::new(chk.info.prop, tier, Mode::Worker { shard, nshards: n, start }, slot);
            (chk.run)(&mut ctx);
            worker_finish(&ctx, std::path::Path::new(&args[8]));
        }
        "describe" => {
            let chk = checks::find(&args[2]).expect("prop");
            let tier = tier_of(&args[3]);
            let idx: u64 = args[4].parse().unwrap();
            let mut ctx = Ctx::new(chk.info.prop, tier, Mode::Describe { idx }, std::ptr::null_mut());
            (chk.run)(&mut ctx);
            match ctx.described {
                Some((f, d)) => println!("{f}\n{d}"),
                None => println!("?\n(case index {idx} not found)"),
            }
        }
        "count" => {
            let chk = checks::find(&args[2]).expect("prop");
            let tier = tier_of(&args[3]);
            let mut ctx = Ctx::new(chk.info.prop, tier, Mode::Count, std::ptr::null_mut());
            (chk.run)(&mut ctx);
            println!("{}", ctx.total_cases());
        }
        "find" => {
            // development aid: zverif find <Cxx> <tier> <substring> [max]
            let chk = checks::find(&args[2]).expect("prop");
            let tier = tier_of(&args[3]);
            let max = args.get(5).and_then(|s| s.parse().ok()).unwrap_or(10);
            let mut ctx = Ctx::new(chk.info.prop, tier, Mode::Find { pat: Box::leak(args[4].clone().into_boxed_str()), max }, std::ptr::null_mut());
            (chk.run)(&mut ctx);
        }
        "multi" => {
            // development aid: zverif multi <Cxx> <tier> <idx,idx,...>: these cases in one process (state carried over)
            let chk = checks::find(&args[2]).expect("prop");
            let tier = tier_of(&args[3]);
            let set: Vec<u64> = args[4].split(',').map(|x| x.parse().unwrap()).collect();
            let mut ctx = Ctx::new(chk.info.prop, tier, Mode::Multi { set: Box::leak(set.into_boxed_slice()) }, std::ptr::null_mut());
            (chk.run)(&mut ctx);
            for v in &ctx.violations {
                println!("VIOLATED #{}: {}", v.idx, v.msg);
            }
        }
        "resetcmp" => {
            // development aid: zverif resetcmp <level> <wbits> <memlevel> <n1> <flush2>: reset-after-n1-bytes vs fresh, both libraries
            use api::*;
            let a: Vec<i32> = args[2..].iter().map(|x| x.parse().unwrap()).collect();
            let env = optree::OpEnv::new();
            unsafe fn one<Zx: Z>(a: &[i32], data: &[u8], with_prefix: bool) -> Vec<u8> {
                let mut s = Strm::plain();
                assert_eq!(Zx::deflateInit2_(s.p(), a[0], 8, a[1], a[2], 0, Zx::zlibVersion(), STREAM_SIZE), Z_OK);
                let n1 = a[3] as usize;
                let mut out = vec![0u8; 8192];
                if with_prefix {
                    s.z.next_in = data.as_ptr() as *mut u8;
                    s.z.avail_in = n1 as u32;
                    s.z.next_out = out.as_mut_ptr();
                    s.z.avail_out = 8192;
                    Zx::deflate(s.p(), Z_NO_FLUSH);
                    assert_eq!(Zx::deflateReset(s.p()), Z_OK);
                }
                s.z.next_in = data[n1..].as_ptr() as *mut u8;
                s.z.avail_in = 300;
                s.z.next_out = out.as_mut_ptr();
                s.z.avail_out = 8192;
                Zx::deflate(s.p(), a[4]);
                let n = 8192 - s.z.avail_out as usize;
                Zx::deflateEnd(s.p());
                out.truncate(n);
                out
            }
            unsafe {
                for (name, reset, fresh) in [("zlib-rs", one::<Rs>(&a, &env.data, true), one::<Rs>(&a, &env.data, false)), ("zlib-ng", one::<Ng>(&a, &env.data, true), one::<Ng>(&a, &env.data, false))] {
                    println!("{name}: reset == fresh: {} ({} / {} bytes)\n  reset {}\n  fresh {}", reset == fresh, reset.len(), fresh.len(), hex(&reset), hex(&fresh));
                }
            }
        }
        "single" => {
            // development aid: zverif single <Cxx> <tier> <idx>
            let chk = checks::find(&args[2]).expect("prop");
            let tier = tier_of(&args[3]);
            let idx: u64 = args[4].parse().unwrap();
            let mut ctx = Ctx::new(chk.info.prop, tier, Mode::Single { idx }, std::ptr::null_mut());
            (chk.run)(&mut ctx);
            println!("{}", if ctx.violations.is_empty() { "held" } else { "VIOLATED" });
            for v in &ctx.violations {
                println!("  {}", v.msg);
            }
        }
        "replay" => {
            let s = std::fs::read_to_string(&args[2]).expect("replay file");
            let v: serde_json::Value = serde_json::from_str(&s).expect("replay json");
            let prop = v["property"].as_str().unwrap().to_string();
            let tier = tier_of(v["tier"].as_str().unwrap());
            let idx = v["index"].as_u64().unwrap();
            let chk = checks::find(&prop).expect("prop");
            println!("property {prop}, tier {}, case index {idx}", tier.name());
            println!("recorded case: {}", v["case"].as_str().unwrap_or(""));
            println!("recorded observation: {}", v["observed"].as_str().unwrap_or(""));
            let mut ctx = Ctx::new(chk.info.prop, tier, Mode::Single { idx }, std::ptr::null_mut());
            (chk.run)(&mut ctx);
            if ctx.violations.is_empty() {
                println!("replay: property held on this case");
                std::process::exit(0);
            } else {
                println!("VIOLATION property={prop} replay={}", args[2]);
                std::process::exit(1);
            }
        }
        "dbgref" => debug_ref(args[2].parse().unwrap(), &args[3]),
        "dbgsched" => debug_sched(args[2].parse().unwrap(), &args[3], args[4].parse().unwrap(), args[5].parse().unwrap(), args[6].parse().unwrap()),
        "dbgdops" => debug_dops(),
        "dbgsyncval" => debug_syncval(),
        "dbgreset" => debug_reset(),
        "dbgbound" => debug_bound(),
        "selftest" => match self_test() {
            Ok(()) => println!("self-test ok"),
            Err(e) => {
                eprintln!("self-test failed: {e}");
                std::process::exit(2);
            }
        },
        "list" => {
            for c in checks::all() {
                println!("{}", c.info.prop);
            }
        }
        _ => {
            eprintln!("usage: zverif run <Cxx> <quick|thorough> | replay <file> | describe <Cxx> <tier> <idx> | count <Cxx> <tier> | selftest | list");
            std::process::exit(2);
        }
    }
}

#[allow(dead_code)]
pub fn debug_ref(wb: i32, hexs: &str) {
    let bytes: Vec<u8> = (0..hexs.len() / 2).map(|i| u8::from_str_radix(&hexs[2 * i..2 * i + 2], 16).unwrap()).collect();
    let o = refs::inflate_ref::RefOpts::zlib();
    println!("zlib(max 0): {:?}", refs::wrap::decode_zlib(&bytes, &o, 0));
    println!("zlib(max 7): {:?}", refs::wrap::decode_zlib(&bytes, &o, 7));
    println!("gzip: {:?}", refs::wrap::decode_gzip(&bytes, &o));
    println!("raw: {:?}", refs::wrap::decode_raw(&bytes, &o));
    let env = drv::Env::new();
    println!("rs: {:?}", drv::run_inflate::<api::Rs>(wb, &bytes, &drv::ISched::one_shot(), &env, &drv::IExtra::default(), None).map(|t| (t.fin, t.consumed, t.out.len())));
    println!("ng: {:?}", drv::run_inflate::<api::Ng>(wb, &bytes, &drv::ISched::one_shot(), &env, &drv::IExtra::default(), None).map(|t| (t.fin, t.consumed, t.out.len())));
}

#[allow(dead_code)]
pub fn debug_sched(wb: i32, hexs: &str, n_in: usize, room: usize, flush: i32) {
    let bytes: Vec<u8> = (0..hexs.len() / 2).map(|i| u8::from_str_radix(&hexs[2 * i..2 * i + 2], 16).unwrap()).collect();
    let env = drv::Env::new();
    let s = drv::ISched::uniform(if n_in == 0 { drv::AMPLE } else { n_in }, if room == 0 { drv::AMPLE } else { room }, flush);
    for (n, r) in [("rs", drv::run_inflate::<api::Rs>(wb, &bytes, &s, &env, &drv::IExtra::default(), None)), ("ng", drv::run_inflate::<api::Ng>(wb, &bytes, &s, &env, &drv::IExtra::default(), None))] {
        match r {
            Ok(t) => println!("{n}: fin {:?} consumed {} out {} calls {:?}", t.fin, t.consumed, t.out.len(), t.calls),
            Err(e) => println!("{n}: ERR {e}"),
        }
    }
}

#[allow(dead_code)]
pub fn debug_dops() {
    use optree::*;
    let env = OpEnv::new();
    let ops = [DOp::Deflate { flush: 5, inn: usize::MAX, room: 1 }, DOp::Deflate { flush: 4, inn: 2000, room: 520 }, DOp::ResetKeep];
    for (n, r) in [("rs", run_dops::<api::Rs>(1, 8, -9, 1, 0, &ops, &env, false, false, 64, false, None)), ("ng", run_dops::<api::Ng>(1, 8, -9, 1, 0, &ops, &env, false, false, 64, false, None))] {
        if let Ok(r) = &r { println!("{n} decode: {}", refs::inflate_ref::inflate_raw(&r.total_out[*r.reset_at.last().unwrap_or(&0)..], &refs::inflate_ref::RefOpts::zlib()).tag()); }
        match r {
            Ok(r) => println!("{n}: obs {:?} tail_calls {} ended {} out {}", r.obs.iter().map(|o| (o.ret, o.din, o.dout)).collect::<Vec<_>>(), r.tail_calls, r.tail_ended, engine::hex(&r.total_out)),
            Err(e) => println!("{n}: ERR {e}"),
        }
    }
}

#[allow(dead_code)]
pub fn debug_syncval() {
    use api::*;
    use inputs::*;
    unsafe fn go<Zx: Z>(data: &[u8]) {
        let mut s = Strm::plain();
        Zx::inflateInit2_(s.p(), 31, Zx::zlibVersion(), STREAM_SIZE);
        let mut out = vec![0u8; 70000];
        s.z.next_in = data.as_ptr();
        s.z.avail_in = data.len() as u32;
        s.z.next_out = out.as_mut_ptr();
        s.z.avail_out = 70000;
        let r1 = Zx::inflate(s.p(), Z_BLOCK);
        let r2 = Zx::inflate(s.p(), Z_BLOCK);
        let r3 = Zx::inflateSync(s.p());
        let left_after_sync = s.z.avail_in;
        let r4 = Zx::inflateValidate(s.p(), 1);
        let r5 = Zx::inflate(s.p(), Z_NO_FLUSH);
        let msg = if s.z.msg.is_null() { "".to_string() } else { std::ffi::CStr::from_ptr(s.z.msg).to_string_lossy().to_string() };
        println!("{}: {r1} {r2} sync {r3} (left {left_after_sync}) validate {r4} inflate {r5} avail_in {} total_out {} msg {msg:?} adler {:#x}", Zx::NAME, s.z.avail_in, s.z.total_out, s.z.adler);
        Zx::inflateEnd(s.p());
    }
    let env = drv::Env::new();
    let plain = text(4, 400);
    let cfg = DCfg { level: 6, strategy: 0, wbits: 15, mem_level: 8, wrap: Wrap::Gzip };
    let sched = drv::DSched { steps: vec![drv::DStep::Feed { n: 150, room: drv::AMPLE, flush: Z_FULL_FLUSH }], tail_room: drv::AMPLE };
    let z = drv::run_deflate::<Ng>(&cfg, &plain, &sched, &env, &drv::DExtra::default(), None).unwrap().out;
    println!("crc of whole {:#x} crc of tail {:#x}", refs::cksum::crc32(0, &plain), refs::cksum::crc32(0, &plain[150..]));
    unsafe {
        go::<Rs>(&z);
        go::<Ng>(&z);
    }
}

#[allow(dead_code)]
pub fn debug_reset() {
    use api::*;
    use machine::*;
    unsafe fn go<Zx: Z>(data: &[u8], env: &MEnv) {
        let mut a = DMachine::init::<Zx>(1, -9, 1, 0, data, Strm::plain()).unwrap();
        a.step::<Zx>(MOp::Call { flush: 0, inn: 400, room: drv::AMPLE }, env);
        a.reset::<Zx>();
        a.pos = a.given;
        a.step::<Zx>(MOp::Call { flush: 4, inn: usize::MAX, room: drv::AMPLE }, env);
        let mut f = DMachine::init::<Zx>(1, -9, 1, 0, data, Strm::plain()).unwrap();
        f.pos = 400;
        f.given = 400;
        f.step::<Zx>(MOp::Call { flush: 4, inn: usize::MAX, room: drv::AMPLE }, env);
        let da = refs::inflate_ref::inflate_raw(&a.out, &refs::inflate_ref::RefOpts::zlib());
        let df = refs::inflate_ref::inflate_raw(&f.out, &refs::inflate_ref::RefOpts::zlib());
        println!("{}: reset-stream out {} bytes -> {}; fresh out {} bytes -> {}; equal {}", Zx::NAME, a.out.len(), da.tag(), f.out.len(), df.tag(), a.out == f.out);
        println!("  reset: {}\n  fresh: {}", engine::hex(&a.out[..24]), engine::hex(&f.out[..24]));
        a.end::<Zx>();
        f.end::<Zx>();
    }
    let env = MEnv::new();
    let data = inputs::text(5, 2500);
    unsafe {
        go::<Rs>(&data, &env);
        go::<Ng>(&data, &env);
    }
}

#[allow(dead_code)]
pub fn debug_bound() {
    use api::*;
    unsafe fn go<Zx: Z>(level: i32, st: i32, wb: i32, ml: i32, data: &[u8]) {
        let mut s = Strm::plain();
        Zx::deflateInit2_(s.p(), level, 8, wb, ml, st, Zx::zlibVersion(), STREAM_SIZE);
        let bound = Zx::deflateBound(s.p(), data.len() as _) as usize;
        let mut out = vec![0u8; 200];
        s.z.next_in = data.as_ptr();
        s.z.avail_in = data.len() as u32;
        s.z.next_out = out.as_mut_ptr();
        s.z.avail_out = 200;
        let r = Zx::deflate(s.p(), Z_FINISH);
        let n = 200 - s.z.avail_out as usize;
        println!("{}: bound {bound} ret {r} produced {n}: {}", Zx::NAME, engine::hex(&out[..n]));
        Zx::deflateEnd(s.p());
    }
    let data = inputs::nine_bit(15);
    println!("data {}", engine::hex(&data));
    unsafe {
        for (l, st, wb, ml) in [(3, 2, -15, 1), (6, 0, -15, 8), (6, 0, -14, 8), (1, 0, -15, 8), (0, 0, -15, 8)] {
            println!("level {l} strategy {st} wb {wb} ml {ml}");
            go::<Rs>(l, st, wb, ml, &data);
            go::<Ng>(l, st, wb, ml, &data);
        }
    }
}
