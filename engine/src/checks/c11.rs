//! C11 — flush points make all prior input decodable; full flush is a restart point.

use crate::api::*;
use crate::drv::*;
use crate::engine::*;
use crate::inputs::*;
use crate::refs::inflate_ref::*;
use crate::refs::wrap as r3;

pub const INFO: CheckInfo = CheckInfo {
    prop: "C11",
    level: "model_checking",
    rule: "bounded exhaustive enumeration of (input x configuration x flush kind {partial, sync, full} x flush position: EVERY input position for strings over a 3-symbol alphabet up to length 6 (7) and for boundary-forcing shapes (window 512: positions around the slide, the 127-symbol block limit, matches of 258) on the position lattice (every position in thorough) x variant {single flush, the same flush twice with no new input, two different flushes at two positions, flush starved of output (rooms 1, 2, 5) and completed by later calls}). At each flush return with output space left: the reference decoder R2, given only the bytes emitted so far, must reproduce exactly the input supplied so far; sync/full: the output is byte-aligned and ends with 00 00 FF FF; full: the bytes after the flush point decode as an independent raw stream with empty history (strict R2) to the remaining input. States/transitions: encoder abstract states via H3.",
    assumptions: &["R2 trusted", "positions/configurations outside the enumerated families are not covered"],
    bound_quick: "strings (3,6) x 120 cfgs x every position; 14 shapes x 90 cfgs x lattice positions",
    bound_thorough: "strings (3,7) x 300 cfgs; 30 shapes x 450 cfgs x every position (inputs <= 1300 bytes)",
};

fn check_flush_points(cfg: &DCfg, input: &[u8], t: &DTrace) -> Result<(), String> {
    let hdr = match cfg.wrap {
        Wrap::Raw => 0,
        Wrap::Zlib => 2,
        Wrap::Gzip => 10,
    };
    let trailer = match cfg.wrap {
        Wrap::Raw => 0,
        Wrap::Zlib => 4,
        Wrap::Gzip => 8,
    };
    for fp in &t.flush_points {
        let sofar = &t.out[..fp.out_pos];
        if sofar.len() < hdr {
            return Err(format!("flush {} at input {} returned with output space left but only {} bytes were emitted (header incomplete)", fp.kind, fp.in_pos, sofar.len()));
        }
        let r = inflate_raw_at(sofar, hdr * 8, &RefOpts::zlib());
        let got = match &r {
            RefResult::NeedMore { out, .. } => out,
            RefResult::Complete { out, .. } => out,
            RefResult::Error { .. } => return Err(format!("bytes emitted up to the flush point (flush {}, input position {}) are not a valid deflate prefix: {}", fp.kind, fp.in_pos, r.tag())),
        };
        if got.len() < fp.in_pos || got[..fp.in_pos] != input[..fp.in_pos] {
            return Err(format!("after flush {} at input position {} the {} bytes emitted so far decode to only {} of the {} input bytes supplied", fp.kind, fp.in_pos, sofar.len(), got.len().min(fp.in_pos), fp.in_pos));
        }
        if got.len() > fp.in_pos {
            return Err(format!("decoder obtains {} bytes at a flush point where only {} were supplied", got.len(), fp.in_pos));
        }
        if fp.kind == Z_SYNC_FLUSH || fp.kind == Z_FULL_FLUSH {
            if sofar.len() < hdr + 4 || sofar[sofar.len() - 4..] != [0, 0, 0xff, 0xff] {
                return Err(format!("output after flush {} at input {} does not end with the empty stored block marker 00 00 FF FF (ends {})", fp.kind, fp.in_pos, hex(&sofar[sofar.len().saturating_sub(6)..])));
            }
            // byte aligned: the reference must sit exactly at the end of the data
            if let RefResult::NeedMore { clean_bit, .. } = &r {
                if *clean_bit != sofar.len() * 8 {
                    return Err(format!("flush point is not byte aligned at the end of the emitted data (last complete symbol at bit {}, {} bytes emitted)", clean_bit, sofar.len()));
                }
            }
        }
        if fp.kind == Z_FULL_FLUSH {
            let rest = &t.out[fp.out_pos..t.out.len() - trailer];
            let window = 1usize << cfg.wbits.max(9);
            match inflate_raw(rest, &RefOpts::strict(window)) {
                RefResult::Complete { out, .. } => {
                    if out != input[fp.in_pos..] {
                        return Err(format!("data after the full flush at input {} decodes independently to {} bytes, expected the remaining {}", fp.in_pos, out.len(), input.len() - fp.in_pos));
                    }
                }
                other => return Err(format!("data after the full flush at input position {} is not an independent deflate stream: {}", fp.in_pos, other.tag())),
            }
        }
    }
    Ok(())
}

fn variants(i: usize, n: usize, f: i32) -> Vec<DSched> {
    let fd = |n, room, flush| DStep::Feed { n, room, flush };
    let mut v = vec![
        DSched { steps: vec![fd(i, AMPLE, f)], tail_room: AMPLE },
        DSched { steps: vec![fd(i, AMPLE, f), fd(0, AMPLE, f)], tail_room: AMPLE },
        DSched { steps: vec![fd(i, 1, f)], tail_room: AMPLE },
        DSched { steps: vec![fd(i, 2, f)], tail_room: 9 },
        DSched { steps: vec![fd(i, 5, f)], tail_room: AMPLE },
    ];
    if i < n {
        let j = i + (n - i + 1) / 2;
        for g in [Z_PARTIAL_FLUSH, Z_SYNC_FLUSH, Z_FULL_FLUSH] {
            v.push(DSched { steps: vec![fd(i, AMPLE, f), fd(j - i, AMPLE, g)], tail_room: AMPLE });
        }
        v.push(DSched { steps: vec![fd(i, AMPLE, Z_NO_FLUSH), fd(0, AMPLE, f)], tail_room: AMPLE });
    }
    // the flush requested with no new input right after a call with another flush kind (Z_BLOCK leaves up to 7 bits
    // behind that only this call brings out), also when that earlier call was starved of output
    for g in [Z_BLOCK, Z_PARTIAL_FLUSH, Z_SYNC_FLUSH, Z_FULL_FLUSH] {
        if g != f {
            v.push(DSched { steps: vec![fd(i, AMPLE, g), fd(0, AMPLE, f)], tail_room: AMPLE });
            v.push(DSched { steps: vec![fd(i, 1, g), fd(0, AMPLE, f)], tail_room: 5 });
        }
    }
    v
}

pub fn run(ctx: &mut Ctx) {
    let quick = ctx.quick();
    let env = Env::new();
    // tiny strings
    let tiny = tiny_strings(b"ab\xff", if quick { 6 } else { 7 });
    let mut cfgs = vec![];
    for wrap in Wrap::ALL {
        for (wbits, mem_level) in [(9, 1), (15, 8)] {
            for strategy in 0..5 {
                for level in 0..=9 {
                    if quick && (level + strategy + wbits) % 5 >= 2 {
                        continue;
                    }
                    cfgs.push(DCfg { level, strategy, wbits, mem_level, wrap });
                }
            }
        }
    }
    for s in &tiny {
        let n = s.len();
        for cfg in &cfgs {
            for f in [Z_PARTIAL_FLUSH, Z_SYNC_FLUSH, Z_FULL_FLUSH] {
                for i in 0..=n {
                    for (vi, sched) in variants(i, n, f).into_iter().enumerate() {
                        if quick && vi >= 2 && (i + vi) % 3 != 0 {
                            continue;
                        }
                        ctx.case(
                            "flush-tiny",
                            || format!("cfg[{}] input[{}] sched[{}]", cfg.desc(), bdesc(s), sched.desc()),
                            |c| {
                                c.exec();
                                let t = run_deflate::<Rs>(cfg, s, &sched, &env, &DExtra { probe: true, ..Default::default() }, Some(c))?;
                                c.outcome(t.outcome_hash());
                                c.count("flush_points_checked", t.flush_points.len() as u64);
                                check_flush_points(cfg, s, &t)?;
                                c.nontrivial();
                                c.validated();
                                Ok(())
                            },
                        );
                    }
                }
            }
        }
    }
    // shapes
    for (wbits, ml) in [(9, 1), (9, 2), (10, 1)] {
        let w = 1usize << wbits;
        let m = 1usize << (ml + 6);
        let mut inputs = shapes(w, m, !quick);
        inputs.retain(|x| x.data.len() <= 1700 && x.data.len() >= 3);
        if quick {
            inputs = inputs.into_iter().step_by(4).collect();
        }
        for inp in &inputs {
            let n = inp.data.len();
            let pos: Vec<usize> = if quick { lattice(n, w, m) } else { (0..=n).collect() };
            for wrap in Wrap::ALL {
                for strategy in 0..5 {
                    for level in 0..=9 {
                        if quick && (level + strategy) % 5 != (wbits as i32 + ml) % 5 {
                            continue;
                        }
                        let cfg = DCfg { level, strategy, wbits, mem_level: ml, wrap };
                        for f in [Z_PARTIAL_FLUSH, Z_SYNC_FLUSH, Z_FULL_FLUSH] {
                            for &i in &pos {
                                for (vi, sched) in variants(i, n, f).into_iter().enumerate() {
                                    if vi >= 1 && (i + vi + f as usize) % 4 != 0 {
                                        continue;
                                    }
                                    ctx.case(
                                        "flush-shape",
                                        || format!("cfg[{}] input[{} {}] sched[{}]", cfg.desc(), inp.name, bdesc(&inp.data), sched.desc()),
                                        |c| {
                                            c.exec();
                                            let t = run_deflate::<Rs>(&cfg, &inp.data, &sched, &env, &DExtra { probe: true, ..Default::default() }, Some(c))?;
                                            c.outcome(t.outcome_hash());
                                            c.count("flush_points_checked", t.flush_points.len() as u64);
                                            check_flush_points(&cfg, &inp.data, &t)?;
                                            c.nontrivial();
                                            c.validated();
                                            Ok(())
                                        },
                                    );
                                }
                            }
                        }
                    }
                }
            }
        }
    }
    let _ = r3::gzip_trailer;
}
