//! C15 — stream cursors, counters and one-shot lengths account exactly for bytes moved.

use crate::api::*;
use crate::dfam;
use crate::drv::*;
use crate::engine::*;
use crate::inputs::*;
use crate::machine::*;
use crate::optree::sequences;
use std::ffi::c_ulong;

pub const INFO: CheckInfo = CheckInfo {
    prop: "C15",
    level: "model_checking",
    rule: "invariant monitor on EVERY call of every execution of the shared (configuration x input x schedule) families (C API): next_in/next_out advance by exactly the bytes consumed/produced, avail_in/avail_out decrease by the same amounts without underflow, total_in/total_out equal the sums over all calls (+ preset-dictionary bytes for C-API deflate), Z_BUF_ERROR only when the call neither consumed nor produced (or Finish could not complete); each stream is decoded under three schedules with 0..3 trailing garbage bytes, where the consumed count must be exactly the stream length; the same chunkings through the Rust Deflate/Inflate wrappers (totals == sums of pointer differences); one-shot helpers compress/compress2/uncompress/uncompress2/compress_slice/decompress_slice report lengths equal to those totals, uncompress2 the compressed length excluding trailing bytes; explicit enumeration of inflate programs with inflateSync/reset/prime to depth 4 with totals compared with the sums after every call. Family uncompress-any-stream: uncompress / uncompress2 on every truncation, a bit-flip lattice, FDICT, wrong-wrapper and trailing-byte variants of six data sets into six destination sizes: (status, destLen, sourceLen, bytes) equal zlib-ng's and the totals of the equivalent single streaming call. Every third schedule runs (compresses and decodes) with total_in / total_out started at 2^32 - 100, so that every counter crosses 2^32 under the per-call monitor. distinct_nontrivial = distinct (compressed stream, per-call deltas) outcomes. Family huge-slices: Rust API with a slice of 2^32 + 1000 bytes as output of Deflate::compress, output and input of Inflate::decompress.",
    assumptions: &["histories outside the enumerated families are not covered", "running totals after Z_NEED_DICT are not judged (zlib is self-inconsistent there, see C16)"],
    bound_quick: "tiny + shape families (stride 5), 4 trailing-garbage lengths, Rust wrappers on 6 chunk sizes, sync programs depth 4",
    bound_thorough: "families stride 1, sync programs depth 5",
};

fn rust_wrappers(c: &mut Case, it: &dfam::DItem, stream_ref: &[u8]) -> Result<(), String> {
    if it.cfg.wrap == Wrap::Gzip {
        return Ok(());
    }
    let input = &it.inp.data;
    let cfg = zlib_rs::DeflateConfig {
        level: it.cfg.level,
        method: zlib_rs::Method::Deflated,
        window_bits: it.cfg.window_bits_arg(),
        mem_level: it.cfg.mem_level,
        strategy: match it.cfg.strategy {
            0 => zlib_rs::Strategy::Default,
            1 => zlib_rs::Strategy::Filtered,
            2 => zlib_rs::Strategy::HuffmanOnly,
            3 => zlib_rs::Strategy::Rle,
            _ => zlib_rs::Strategy::Fixed,
        },
    };
    // a preset dictionary is not input of any compress call: the wrapper's totals count the slices only
    if !input.is_empty() {
        c.exec();
        let mut d = zlib_rs::Deflate::new_with_config(cfg);
        let dict = &input[..input.len().min(300)];
        if d.set_dictionary(dict).is_ok() {
            if d.total_in() != 0 || d.total_out() != 0 {
                return Err(format!("Deflate::set_dictionary({} bytes) moved the totals to {} / {}", dict.len(), d.total_in(), d.total_out()));
            }
            let mut buf = vec![0u8; input.len() * 2 + 400];
            let half = input.len() / 2;
            let r1 = d.compress(&input[..half], &mut buf, zlib_rs::DeflateFlush::SyncFlush);
            if r1.is_err() || d.total_in() as usize != half {
                return Err(format!("Deflate with a {}-byte dictionary: after compress({half} bytes, SyncFlush) -> {r1:?} total_in is {}", dict.len(), d.total_in()));
            }
            let o1 = d.total_out() as usize;
            let r2 = d.compress(&input[half..], &mut buf[o1..], zlib_rs::DeflateFlush::Finish);
            if r2 != Ok(zlib_rs::Status::StreamEnd) || d.total_in() as usize != input.len() {
                return Err(format!("Deflate with a {}-byte dictionary: after the Finish call -> {r2:?} total_in is {} for {} bytes of input", dict.len(), d.total_in(), input.len()));
            }
        }
    }
    for (in_chunk, out_chunk) in [(usize::MAX, 1 << 16), (1, 1 << 16), (7, 3), (1 << 16, 1), (300, 300), (0, 5)] {
        c.exec();
        let mut d = zlib_rs::Deflate::new_with_config(cfg);
        let mut produced: Vec<u8> = vec![];
        let mut pos = 0usize;
        let mut buf = vec![0u8; out_chunk.min(1 << 16)];
        let mut calls = 0;
        loop {
            let take = if in_chunk == 0 { 0 } else { in_chunk.min(input.len() - pos) };
            let last = in_chunk == 0 || pos + take == input.len();
            // in_chunk == 0: everything in the final Finish call
            let (src, flush) = if in_chunk == 0 { (&input[pos..], zlib_rs::DeflateFlush::Finish) } else { (&input[pos..pos + take], if last { zlib_rs::DeflateFlush::Finish } else { zlib_rs::DeflateFlush::NoFlush }) };
            let (ti, to) = (d.total_in(), d.total_out());
            let r = d.compress(src, &mut buf, flush);
            calls += 1;
            let din = (d.total_in() - ti) as usize;
            let dout = (d.total_out() - to) as usize;
            if din > src.len() || dout > buf.len() {
                return Err(format!("Deflate::compress accounts {din} of {} input bytes, {dout} of {} output bytes", src.len(), buf.len()));
            }
            produced.extend_from_slice(&buf[..dout]);
            pos += din;
            match r {
                Ok(zlib_rs::Status::StreamEnd) => break,
                Ok(_) => {}
                Err(e) => return Err(format!("Deflate::compress: {e:?}")),
            }
            if calls > 40 * (input.len() + 100) {
                return Err("Deflate wrapper does not finish".into());
            }
        }
        if d.total_in() as usize != input.len() || d.total_out() as usize != produced.len() {
            return Err(format!("Deflate totals {} / {} but {} consumed / {} produced", d.total_in(), d.total_out(), input.len(), produced.len()));
        }
        // the wrapper and the C API are two doors to one encoder: the same single Finish call gives the same bytes
        if in_chunk == usize::MAX && calls == 1 && produced != stream_ref {
            return Err(format!("Deflate::compress(all input, Finish) in one call wrote {} bytes, the C API's one deflate(Z_FINISH) call {} bytes, first difference at {:?}", produced.len(), stream_ref.len(), produced.iter().zip(stream_ref).position(|(a, b)| a != b)));
        }
        // and back, with trailing garbage
        let mut z = produced.clone();
        z.extend_from_slice(&[0x55, 0xaa]);
        let hdr = it.cfg.wrap != Wrap::Raw;
        let mut inf = zlib_rs::Inflate::new(hdr, it.cfg.wbits.max(9) as u8);
        let mut out: Vec<u8> = vec![];
        let mut ipos = 0usize;
        let mut calls = 0;
        loop {
            let take = if in_chunk == 0 || in_chunk == usize::MAX { z.len() - ipos } else { in_chunk.min(z.len() - ipos) };
            let (ti, to) = (inf.total_in(), inf.total_out());
            let r = inf.decompress(&z[ipos..ipos + take], &mut buf, zlib_rs::InflateFlush::NoFlush);
            calls += 1;
            let din = (inf.total_in() - ti) as usize;
            let dout = (inf.total_out() - to) as usize;
            if din > take || dout > buf.len() {
                return Err(format!("Inflate::decompress accounts {din} of {take} input bytes, {dout} of {} output bytes", buf.len()));
            }
            out.extend_from_slice(&buf[..dout]);
            ipos += din;
            match r {
                Ok(zlib_rs::Status::StreamEnd) => break,
                Ok(_) => {}
                Err(e) => return Err(format!("Inflate::decompress: {e:?}")),
            }
            if calls > 40 * (z.len() + input.len() + 100) {
                return Err("Inflate wrapper does not finish".into());
            }
        }
        if inf.total_in() as usize != produced.len() || inf.total_out() as usize != input.len() || out != *input {
            return Err(format!("Inflate totals {} / {} for a {}-byte stream (+2 trailing bytes) encoding {} bytes", inf.total_in(), inf.total_out(), produced.len(), input.len()));
        }
    }
    Ok(())
}

fn one_shots(c: &mut Case, env: &Env, input: &[u8], level: i32) -> Result<(), String> {
    unsafe {
        let n = input.len();
        let bound = Rs::compressBound(n as _) as usize;
        let src = env.ain.put(input, true);
        let dst = env.aout.at_end(bound);
        let mut dl: c_ulong = bound as _;
        c.exec();
        let r = Rs::compress2(dst, &mut dl, src, n as _, level);
        if r != Z_OK {
            return Err(format!("compress2 into compressBound returned {}", rc_name(r)));
        }
        let z = std::slice::from_raw_parts(dst, dl as usize).to_vec();
        // the reported length is exactly the stream: decoding consumes all of it
        let t = run_inflate::<Rs>(15, &z, &ISched::one_shot(), env, &IExtra { expect_out: n, ..Default::default() }, None)?;
        if t.fin != Fin::StreamEnd || t.consumed != z.len() || t.out != input {
            return Err(format!("compress2 reported {} bytes but the stream is {:?} after {} bytes", z.len(), t.fin, t.consumed));
        }
        for extra in 0..4usize {
            let mut zz = z.clone();
            zz.extend(std::iter::repeat(0x9c).take(extra));
            let s = env.ain.put(&zz, true);
            let d = env.aout.at_end(n + 8);
            let mut dl: c_ulong = (n + 8) as _;
            let mut sl: c_ulong = zz.len() as _;
            c.exec();
            let r = Rs::uncompress2(d, &mut dl, s, &mut sl);
            if r != Z_OK || dl as usize != n || sl as usize != z.len() {
                return Err(format!("uncompress2 on a {}-byte stream followed by {extra} trailing bytes: rc {}, destLen {dl} (data {n}), sourceLen {sl}", z.len(), rc_name(r)));
            }
            let mut dl: c_ulong = (n + 8) as _;
            let r = Rs::uncompress(d, &mut dl, s, zz.len() as _);
            if r != Z_OK || dl as usize != n {
                return Err(format!("uncompress: rc {}, destLen {dl} (data {n})", rc_name(r)));
            }
        }
        // safe one-shots
        let mut buf = vec![0u8; bound];
        let (o, rc) = zlib_rs::compress_slice(&mut buf, input, zlib_rs::DeflateConfig { level, ..Default::default() });
        if rc != zlib_rs::ReturnCode::Ok || o != &z[..] {
            return Err(format!("compress_slice: {rc:?}, {} bytes vs compress2 {} bytes", o.len(), z.len()));
        }
        let mut out = vec![0u8; n + 3];
        let (o, rc) = zlib_rs::decompress_slice(&mut out, &z, zlib_rs::InflateConfig::default());
        if rc != zlib_rs::ReturnCode::Ok || o != input {
            return Err(format!("decompress_slice: {rc:?}, {} bytes (data {n})", o.len()));
        }
    }
    Ok(())
}

fn sync_programs(ctx: &mut Ctx) {
    let env = MEnv::new();
    let denv = Env::new();
    let plain = text(4, 900);
    let mut sets: Vec<(&str, i32, Vec<u8>)> = vec![];
    for (name, wrap, wb) in [("zlib", Wrap::Zlib, 15), ("gzip", Wrap::Gzip, 31), ("raw", Wrap::Raw, -15)] {
        let cfg = DCfg { level: 6, strategy: 0, wbits: 15, mem_level: 8, wrap };
        let sched = DSched { steps: vec![DStep::Feed { n: 300, room: AMPLE, flush: Z_FULL_FLUSH }, DStep::Feed { n: 300, room: AMPLE, flush: Z_SYNC_FLUSH }], tail_room: AMPLE };
        sets.push((name, wb, run_deflate::<Ng>(&cfg, &plain, &sched, &denv, &DExtra::default(), None).expect("ref").out));
    }
    let alpha = [
        MOp::Call { flush: Z_NO_FLUSH, inn: 20, room: 30 },
        MOp::Call { flush: Z_NO_FLUSH, inn: usize::MAX, room: AMPLE },
        MOp::Call { flush: Z_BLOCK, inn: usize::MAX, room: AMPLE },
        MOp::Call { flush: Z_NO_FLUSH, inn: 150, room: 7 },
        MOp::Sync,
        MOp::Prime(3, 5),
        MOp::Validate(0),
    ];
    let depth = if ctx.quick() { 4 } else { 5 };
    for (name, wb, data) in &sets {
        sequences(&alpha, depth, |ops| {
            ctx.case(
                "totals-sync-programs",
                || format!("data={name} inflateInit2({wb}) ; {}", ops.iter().map(|o| o.tag()).collect::<Vec<_>>().join(" ; ")),
                |c| unsafe {
                    c.exec();
                    let mut m = IMachine::init::<Rs>(*wb, data, Strm::plain()).map_err(|r| format!("init {r}"))?;
                    let (mut sum_in, mut sum_out) = (0u64, 0u64);
                    let mut synced = false;
                    for (k, op) in ops.iter().enumerate() {
                        let o = m.step::<Rs>(*op, &env);
                        sum_in += o.din as u64;
                        sum_out += o.dout as u64;
                        if o.ret == Z_NEED_DICT {
                            break;
                        }
                        if o.total_in != sum_in || o.total_out != sum_out {
                            m.end::<Rs>();
                            return Err(format!("after op {k} {}: total_in {} / total_out {} but the calls so far consumed {sum_in} and produced {sum_out}", op.tag(), o.total_in, o.total_out));
                        }
                        if *op == MOp::Sync && o.ret == Z_OK {
                            synced = true;
                        }
                        if synced {
                            c.count("totals_checked_after_sync", 1);
                        }
                    }
                    m.end::<Rs>();
                    c.outcome(hash_u32s(&[sum_in as u32, sum_out as u32, *wb as u32]));
                    c.validated();
                    Ok(())
                },
            );
        });
    }
}

pub fn run(ctx: &mut Ctx) {
    let quick = ctx.quick();
    let fams = dfam::build(quick);
    let env = Env::new();
    // (the quick tier takes from the big family only the input that makes single drains of the pending buffer >= 64 KiB)
    let sel = dfam::Sel { tiny: true, shapes: true, big: true, sweep: true, shape_cfg_stride: if quick { 7 } else { 1 } };
    dfam::for_each(ctx, &fams, sel, |ctx, it| {
        if quick && it.fam == "tiny" && (it.sched_idx + it.inp.data.len()) % 3 != 0 {
            return;
        }
        if quick && it.fam == "big" && !(it.inp.name == "lcg(200000)" && it.sched_idx < 3) {
            return;
        }
        ctx.case(
            it.fam,
            || it.desc(),
            |c| {
                c.exec();
                // every third schedule runs on a stream whose totals start just below 2^32 (and, further down, decodes so)
                let base: u64 = if it.sched_idx % 3 == 1 { (1u64 << 32) - 100 } else { 0 };
                let t = run_deflate::<Rs>(&it.cfg, &it.inp.data, it.sched, &env, &DExtra { probe: true, totals_base: base, ..Default::default() }, Some(c))?;
                c.outcome(t.outcome_hash());
                if it.sched_idx != 0 {
                    c.nontrivial();
                }
                let wb = wb_for(it.cfg.wrap, it.cfg.wbits.max(9));
                let n = it.inp.data.len();
                for extra in 0..4usize {
                    let mut z = t.out.clone();
                    z.extend(std::iter::repeat(0x78).take(extra));
                    for sch in [ISched::one_shot(), ISched::uniform(1, AMPLE, Z_NO_FLUSH), ISched::uniform(AMPLE, if n > 4096 { 263 } else { 1 }, Z_NO_FLUSH)] {
                        if extra != 0 && it.sched_idx % 4 != 0 {
                            continue;
                        }
                        c.exec();
                        let d = run_inflate::<Rs>(wb, &z, &sch, &env, &IExtra { expect_out: n, totals_base: base, ..Default::default() }, None)?;
                        if d.fin != Fin::StreamEnd || d.consumed != t.out.len() || d.total_out as usize != n {
                            return Err(format!("stream of {} bytes + {extra} trailing bytes: {:?}, consumed {}, total_out {} (data {n}) under [{}]", t.out.len(), d.fin, d.consumed, d.total_out, sch.desc()));
                        }
                        if extra > 0 {
                            c.count("trailing_garbage_cases", 1);
                        }
                    }
                }
                if it.sched_idx == 0 {
                    rust_wrappers(c, it, &t.out)?;
                    if it.cfg.wrap == Wrap::Zlib && it.cfg.wbits == 15 && it.cfg.mem_level == 8 && it.cfg.strategy == 0 {
                        one_shots(c, &env, &it.inp.data, it.cfg.level)?;
                    }
                }
                c.validated();
                Ok(())
            },
        );
    });
    sync_programs(ctx);
    uncompress_any(ctx);
    huge_slices(ctx);
}

/// uncompress / uncompress2 on streams that are NOT a complete valid zlib stream: every truncation, bit flips, a preset
/// dictionary request, the wrong wrapper, trailing bytes - into every interesting destination size. The lengths reported
/// are the totals of the equivalent streaming run (one inflate(Z_NO_FLUSH) call over the same buffers) and equal the
/// reference implementation's.
fn uncompress_any(ctx: &mut Ctx) {
    let ain = crate::mem::Arena::new(1 << 16);
    let aout = crate::mem::Arena::new(1 << 16);
    let quick = ctx.quick();
    for ds in crate::checks::c16::datasets() {
        if !matches!(ds.name, "zlib" | "zlib+fdict" | "gzip-plain" | "raw-too-far" | "empty" | "corrupt-zlib") {
            continue;
        }
        let z = &ds.bytes;
        let mut variants: Vec<(String, Vec<u8>)> = vec![("intact".into(), z.clone())];
        for k in 0..z.len() {
            variants.push((format!("truncate@{k}"), z[..k].to_vec()));
        }
        let mut bit = 0usize;
        while bit < z.len() * 8 {
            let mut v = z.clone();
            v[bit / 8] ^= 1 << (bit % 8);
            variants.push((format!("bitflip@{bit}"), v));
            bit += if bit < 96 { 1 } else if quick { 29 } else { 5 };
        }
        for extra in 1..=3usize {
            let mut v = z.clone();
            v.extend(std::iter::repeat(0x78).take(extra));
            variants.push((format!("+{extra} trailing bytes"), v));
        }
        let n = 400usize;
        for (vn, bytes) in &variants {
            for dest in [0usize, 1, 150, n - 1, n, n + 10] {
                ctx.case(
                    "uncompress-any-stream",
                    || format!("uncompress2/uncompress(dest {dest} bytes) on data set {} {vn} ({} bytes)", ds.name, bytes.len()),
                    |c| unsafe {
                        let mut res: Vec<(i32, u64, u64, Vec<u8>, i32, u64)> = vec![];
                        for which in 0..2 {
                            let s = ain.put(bytes, true);
                            let d = aout.at_end(dest);
                            let mut dl: c_ulong = dest as _;
                            let mut sl: c_ulong = bytes.len() as _;
                            c.exec();
                            let r = if which == 0 { Rs::uncompress2(d, &mut dl, s, &mut sl) } else { Ng::uncompress2(d, &mut dl, s, &mut sl) };
                            if dl as usize > dest || sl as usize > bytes.len() {
                                return Err(format!("{}: uncompress2 reports destLen {dl} of {dest}, sourceLen {sl} of {}", if which == 0 { "zlib-rs" } else { "zlib-ng" }, bytes.len()));
                            }
                            let got = std::slice::from_raw_parts(d, dl as usize).to_vec();
                            let d1 = aout.at_end(dest);
                            let mut dl1: c_ulong = dest as _;
                            let r1 = if which == 0 { Rs::uncompress(d1, &mut dl1, s, bytes.len() as _) } else { Ng::uncompress(d1, &mut dl1, s, bytes.len() as _) };
                            res.push((r, dl as u64, sl as u64, got, r1, dl1 as u64));
                        }
                        if res[0] != res[1] {
                            return Err(format!("uncompress2: zlib-rs rc {} destLen {} sourceLen {}, uncompress rc {} destLen {}; zlib-ng rc {} destLen {} sourceLen {}, uncompress rc {} destLen {}; output bytes equal: {}", rc_name(res[0].0), res[0].1, res[0].2, rc_name(res[0].4), res[0].5, rc_name(res[1].0), res[1].1, res[1].2, rc_name(res[1].4), res[1].5, res[0].3 == res[1].3));
                        }
                        // the equivalent streaming run
                        if dest > 0 {
                            let mut st = Strm::plain();
                            let r = Rs::inflateInit2_(st.p(), 15, Rs::zlibVersion(), STREAM_SIZE);
                            if r != Z_OK {
                                return Err(format!("inflateInit2 returned {}", rc_name(r)));
                            }
                            st.z.next_in = ain.put(bytes, true);
                            st.z.avail_in = bytes.len() as u32;
                            st.z.next_out = aout.at_end(dest);
                            st.z.avail_out = dest as u32;
                            let mut guard = 0;
                            loop {
                                let r = Rs::inflate(st.p(), Z_NO_FLUSH);
                                guard += 1;
                                if r != Z_OK || guard > 8 || st.z.avail_out == 0 {
                                    break;
                                }
                            }
                            let (ti, to) = (st.z.total_in as u64, st.z.total_out as u64);
                            Rs::inflateEnd(st.p());
                            // with a full destination the helper probes for more data with a one-byte buffer: it may
                            // consume further input (never less than the streaming run)
                            let full = to as usize == dest;
                            if res[0].1 != to || (if full { res[0].2 < ti } else { res[0].2 != ti }) {
                                return Err(format!("uncompress2 reports destLen {} sourceLen {} (rc {}), the streaming run over the same buffers has total_out {to} total_in {ti}", res[0].1, res[0].2, rc_name(res[0].0)));
                            }
                        }
                        c.outcome(crate::engine::hash_bytes(&res[0].3) ^ (res[0].0 as u64) << 40 ^ res[0].2 << 20 ^ res[0].1);
                        c.validated();
                        Ok(())
                    },
                );
            }
        }
    }
}

/// The Rust wrappers take slices, the C stream counts in 32 bits: slices longer than u32::MAX (a 4 GiB + 1000 byte
/// anonymous mapping, never touched beyond what the calls use) as output of Deflate::compress, as output of
/// Inflate::decompress and as input of Inflate::decompress (a stream followed by zero bytes): totals equal what was
/// really consumed and produced.
fn huge_slices(ctx: &mut Ctx) {
    for which in 0..3usize {
        ctx.case(
            "huge-slices",
            || format!("Rust API, slice of 2^32 + 1000 bytes as {}", ["output of Deflate::compress(2000 bytes, Finish)", "output of Inflate::decompress", "input of Inflate::decompress (stream + zero bytes)"][which]),
            |c| unsafe {
                let n: usize = (1usize << 32) + 1000;
                let p = libc::mmap(std::ptr::null_mut(), n, libc::PROT_READ | libc::PROT_WRITE, libc::MAP_PRIVATE | libc::MAP_ANONYMOUS | libc::MAP_NORESERVE, -1, 0);
                if p == libc::MAP_FAILED {
                    return Err("mmap of 4 GiB failed".into());
                }
                let big = std::slice::from_raw_parts_mut(p as *mut u8, n);
                let input = text(8, 2000);
                // reference run with ordinary buffers
                let mut small = vec![0u8; 8192];
                let mut d0 = zlib_rs::Deflate::new(6, true, 15);
                let r0 = d0.compress(&input, &mut small, zlib_rs::DeflateFlush::Finish);
                let zlen = d0.total_out() as usize;
                let res = (|| -> Result<(), String> {
                    if r0 != Ok(zlib_rs::Status::StreamEnd) {
                        return Err(format!("reference compress: {r0:?}"));
                    }
                    c.exec();
                    match which {
                        0 => {
                            let mut d = zlib_rs::Deflate::new(6, true, 15);
                            let r = d.compress(&input, big, zlib_rs::DeflateFlush::Finish);
                            if r != Ok(zlib_rs::Status::StreamEnd) || d.total_in() != 2000 || d.total_out() as usize != zlen || big[..zlen] != small[..zlen] {
                                return Err(format!("Deflate::compress into the huge slice: {r:?}, total_in {} (2000 given), total_out {} ({zlen} bytes written by the reference run), bytes equal: {}", d.total_in(), d.total_out(), big[..zlen.min(8192)] == small[..zlen.min(8192)]));
                            }
                        }
                        1 => {
                            let mut i = zlib_rs::Inflate::new(true, 15);
                            let r = i.decompress(&small[..zlen], big, zlib_rs::InflateFlush::Finish);
                            if r != Ok(zlib_rs::Status::StreamEnd) || i.total_in() as usize != zlen || i.total_out() != 2000 || big[..2000] != input[..] {
                                return Err(format!("Inflate::decompress into the huge slice: {r:?}, total_in {} (stream {zlen}), total_out {} (data 2000)", i.total_in(), i.total_out()));
                            }
                        }
                        _ => {
                            big[..zlen].copy_from_slice(&small[..zlen]);
                            let mut out = vec![0u8; 4096];
                            let mut i = zlib_rs::Inflate::new(true, 15);
                            let r = i.decompress(big, &mut out, zlib_rs::InflateFlush::NoFlush);
                            if r != Ok(zlib_rs::Status::StreamEnd) || i.total_in() as usize != zlen || i.total_out() != 2000 || out[..2000] != input[..] {
                                return Err(format!("Inflate::decompress from the huge slice: {r:?}, total_in {} (stream {zlen}), total_out {} (data 2000)", i.total_in(), i.total_out()));
                            }
                        }
                    }
                    Ok(())
                })();
                libc::munmap(p, n);
                res?;
                c.outcome(which as u64);
                c.nontrivial();
                c.validated();
                Ok(())
            },
        );
    }
}
