//! C20 — gzip header metadata written faithfully (any output chunking, any field size) and captured
//! within announced capacities (any input chunking).

use crate::api::*;
use crate::checks::c05;
use crate::drv::*;
use crate::engine::*;
use crate::hfam;
use crate::inputs::*;
use crate::mem::Arena;
use crate::refs::builder::{build, Plan};
use crate::refs::wrap::{self as r3, GzFields};

pub const INFO: CheckInfo = CheckInfo {
    prop: "C20",
    level: "model_checking",
    rule: "write side: bounded exhaustive lattice of header contents (text, mtime, os, extra/name/comment lengths {absent, 0, 1, 5, 600 (, 5000/65535)}, header-CRC) x memLevel {1,2,8} (pending buffer 512/1024/64K: header larger or smaller than it) x output room {ample, 1, 7, 100, pending-1, pending, pending+1} for all calls and for the first call only; the produced stream is parsed by the reference R3 and must carry exactly the supplied fields, a correct header CRC and decode to the input within the call cap. Read side: R3-built headers over the same lattice x input chunkings {one call, 1-byte pieces, every single split position in the header} x capture capacities {NULL, 0, 1, len-1, len, len+1} for extra/name/comment in guard-paged buffers; captured fields, truncation at capacity, absence, `done` timing and untouched bytes beyond capacity are compared with the R3 parse. distinct_nontrivial = distinct (header bytes, chunking, capacities) outcomes.",
    assumptions: &["R3 (RFC 1952 writer/parser) is trusted", "field lengths other than the lattice values are not covered"],
    bound_quick: "field lengths {absent,0,1,5,600}, one (text,mtime,os) combination per field triple, memLevel {1,2,8}; read side: 2 capacity patterns per header on 1-byte chunking, all 24 on one-shot",
    bound_thorough: "field lengths up to 5000 (name/comment) and 65535 (extra), all (text,mtime,os) combinations, every split position",
};

fn write_side(ctx: &mut Ctx, env: &Env) {
    let rows = hfam::hdr_rows(ctx.quick());
    let body = text(12, 40);
    for row in &rows {
        ctx.case(
            "gzhdr-write",
            || row.desc(),
            |c| {
                c.exec();
                let ex = DExtra { gz: Some(&row.gz), probe: true, ..Default::default() };
                let t = run_deflate::<Rs>(&row.cfg, &body, &row.sched, env, &ex, Some(c))?;
                c.outcome(t.outcome_hash());
                c.nontrivial();
                c05::check_stream(c, &row.cfg, &body, &t.out, None, Some(&row.gz))?;
                // the same with the stream duplicated (deflateCopy) after the first / second call and continued on the
                // copy: a copy taken while a field is only partly written must carry on exactly there
                if t.calls.len() > 1 {
                    for k in [1usize, 2] {
                        c.exec();
                        let exk = DExtra { gz: Some(&row.gz), copy_after_call: k, ..Default::default() };
                        let tk = run_deflate::<Rs>(&row.cfg, &body, &row.sched, env, &exk, None)?;
                        if tk.out != t.out {
                            return Err(format!("continuing on a deflateCopy taken after call {k} writes a different stream ({} bytes, {} without the copy, first difference at {:?})", tk.out.len(), t.out.len(), tk.out.iter().zip(&t.out).position(|(a, b)| a != b)));
                        }
                    }
                    // and with the stream abandoned after the first / second call (possibly inside a field), deflateReset,
                    // and the same member written again on the recycled stream (the header stays installed)
                    for k in [1usize, 2] {
                        c.exec();
                        let exk = DExtra { gz: Some(&row.gz), reset_after_call: k, ..Default::default() };
                        let tk = run_deflate::<Rs>(&row.cfg, &body, &row.sched, env, &exk, None)?;
                        c05::check_stream(c, &row.cfg, &body, &tk.out, None, Some(&row.gz)).map_err(|e| format!("member written after a deflateReset that followed call {k}: {e}"))?;
                    }
                }
                Ok(())
            },
        );
    }
}

#[derive(Clone, Copy, Debug, PartialEq, Eq)]
enum Cap {
    Null,
    N(usize),
}

fn caps_for(len: usize) -> Vec<Cap> {
    let mut v = vec![Cap::Null, Cap::N(0), Cap::N(1)];
    for x in [len.saturating_sub(1), len, len + 1] {
        if !v.contains(&Cap::N(x)) {
            v.push(Cap::N(x));
        }
    }
    v
}

struct ReadEnv {
    ae: Arena,
    an: Arena,
    ac: Arena,
}

const CANARY: u8 = 0xC7;

/// run inflate over `stream` with the given chunk boundaries and header capture; returns Err on violation
#[allow(clippy::too_many_arguments)]
fn read_case(c: &mut Case, env: &Env, renv: &ReadEnv, stream: &[u8], f: &GzFields, hdr_len: usize, body: &[u8], cuts: &[usize], caps: (Cap, Cap, Cap), recycle: u8) -> Result<(), String> {
    unsafe {
        let mut s = Strm::guarded(0x3C);
        let r = Rs::inflateInit2_(s.p(), 31, Rs::zlibVersion(), STREAM_SIZE);
        if r != Z_OK {
            return Err("inflateInit2 failed".into());
        }
        // recycled streams: the state machine has been somewhere else before the reset
        if recycle != 0 {
            let prior: Vec<u8> = match recycle {
                // a gzip member abandoned in the middle of a 300-byte stored block
                1 => {
                    let mut p = GzFields { os: 3, ..Default::default() }.write();
                    p.extend_from_slice(&[0x00, 0x2c, 0x01, 0xd3, 0xfe]);
                    p.extend(std::iter::repeat(0x41).take(120));
                    p
                }
                // abandoned inside a match (fixed block: literal, then match 258 at distance 1), output room too small
                2 => {
                    let mut p = GzFields { os: 3, name: Some(b"previous-name".to_vec()), ..Default::default() }.write();
                    p.extend_from_slice(&build(&[Plan::Fixed(vec![crate::refs::builder::Tok::Lit(b'z'), crate::refs::builder::Tok::Match(258, 1)])]));
                    p
                }
                // an invalid stream (data error)
                _ => vec![0x1f, 0x8b, 0x08, 0x00, 0, 0, 0, 0, 0, 3, 0x07, 0x00],
            };
            let pin = env.ain.put(&prior, true);
            let pout = env.aout.at_end(100);
            s.z.next_in = pin;
            s.z.avail_in = prior.len() as u32;
            s.z.next_out = pout;
            s.z.avail_out = 100;
            let _ = Rs::inflate(s.p(), Z_NO_FLUSH);
            c.exec();
            let r = if recycle == 2 { Rs::inflateReset2(s.p(), 31) } else { Rs::inflateReset(s.p()) };
            if r != Z_OK {
                Rs::inflateEnd(s.p());
                return Err(format!("inflateReset on the recycled stream returned {}", rc_name(r)));
            }
        }
        let mut head = Box::new(zeroed_header());
        // capture buffers: end flush against a guard page, with a canary region before for the unused part
        let setup = |a: &Arena, cap: Cap| -> (*mut u8, u32) {
            match cap {
                Cap::Null => (std::ptr::null_mut(), 77), // a non-zero max with a NULL pointer must be ignored
                Cap::N(n) => {
                    let p = a.at_end(n);
                    std::ptr::write_bytes(p, CANARY, n);
                    (p, n as u32)
                }
            }
        };
        let (pe, me) = setup(&renv.ae, caps.0);
        let (pn, mn) = setup(&renv.an, caps.1);
        let (pc, mc) = setup(&renv.ac, caps.2);
        head.extra = pe;
        head.extra_max = me;
        head.name = pn;
        head.name_max = mn;
        head.comment = pc;
        head.comm_max = mc;
        head.done = 55;
        let r = Rs::inflateGetHeader(s.p(), &mut *head);
        if r != Z_OK {
            Rs::inflateEnd(s.p());
            return Err(format!("inflateGetHeader returned {}", rc_name(r)));
        }
        let mut out = vec![];
        let mut pos = 0;
        let mut bounds: Vec<usize> = cuts.to_vec();
        bounds.push(stream.len());
        let mut done_seen_at: Option<usize> = None;
        let mut fin = 0;
        for &b in &bounds {
            if b <= pos && b != stream.len() {
                continue;
            }
            // deliver stream[pos..b] (plus nothing else)
            loop {
                let chunk = &stream[pos..b];
                let pin = env.ain.put(chunk, true);
                let room = body.len() + 64;
                let pout = env.aout.at_end(room);
                s.z.next_in = pin;
                s.z.avail_in = chunk.len() as u32;
                s.z.next_out = pout;
                s.z.avail_out = room as u32;
                let ret = Rs::inflate(s.p(), Z_NO_FLUSH);
                c.exec();
                let din = chunk.len() - s.z.avail_in as usize;
                let dout = room - s.z.avail_out as usize;
                pos += din;
                out.extend_from_slice(std::slice::from_raw_parts(pout, dout));
                if head.done == 1 && done_seen_at.is_none() {
                    done_seen_at = Some(pos);
                    if pos < hdr_len {
                        Rs::inflateEnd(s.p());
                        return Err(format!("header capture signalled done after {pos} input bytes but the header is {hdr_len} bytes long"));
                    }
                } else if head.done != 1 && head.done != 0 {
                    Rs::inflateEnd(s.p());
                    return Err(format!("head.done = {} while reading a gzip header", head.done));
                }
                if head.done == 0 && pos > hdr_len {
                    Rs::inflateEnd(s.p());
                    return Err(format!("{pos} bytes consumed (header is {hdr_len} bytes) but header capture not signalled done"));
                }
                if !matches!(ret, Z_OK | Z_STREAM_END | Z_BUF_ERROR) {
                    Rs::inflateEnd(s.p());
                    return Err(format!("inflate returned {} on a valid gzip stream at byte {pos}", rc_name(ret)));
                }
                fin = ret;
                if ret == Z_STREAM_END || din == 0 && dout == 0 || pos == b {
                    break;
                }
            }
            if fin == Z_STREAM_END {
                break;
            }
        }
        Rs::inflateEnd(s.p());
        if fin != Z_STREAM_END || out != body || pos != stream.len() {
            return Err(format!("valid gzip stream not decoded: last rc {}, {} of {} bytes consumed, {} bytes out", rc_name(fin), pos, stream.len(), out.len()));
        }
        if head.done != 1 {
            return Err(format!("head.done = {} after the whole stream", head.done));
        }
        // scalar fields
        if (head.text != 0) != f.text || head.time as u32 != f.mtime || head.xflags != f.xfl as i32 || head.os != f.os as i32 || (head.hcrc != 0) != f.hcrc {
            return Err(format!("captured scalar fields differ: text {} time {} xflags {} os {} hcrc {}; stream has {:?}", head.text, head.time, head.xflags, head.os, head.hcrc, (f.text, f.mtime, f.xfl, f.os, f.hcrc)));
        }
        // extra
        let chk = |what: &str, field: &Option<Vec<u8>>, cap: Cap, ptr_after: *mut u8, p0: *mut u8, nul: bool| -> Result<(), String> {
            match field {
                None => {
                    if !ptr_after.is_null() {
                        return Err(format!("{what} absent from the stream but the captured pointer is not NULL"));
                    }
                    if let Cap::N(n) = cap {
                        let b = std::slice::from_raw_parts(p0, n);
                        if b.iter().any(|&x| x != CANARY) {
                            return Err(format!("{what} absent from the stream but the capture buffer was written"));
                        }
                    }
                }
                Some(v) => {
                    let mut full = v.clone();
                    if nul {
                        full.push(0);
                    }
                    match cap {
                        Cap::Null => {
                            if !ptr_after.is_null() {
                                return Err(format!("{what}: capture pointer was NULL and became non-NULL"));
                            }
                        }
                        Cap::N(n) => {
                            if ptr_after != p0 {
                                return Err(format!("{what}: capture pointer changed"));
                            }
                            let k = n.min(full.len());
                            let b = std::slice::from_raw_parts(p0, n);
                            if b[..k] != full[..k] {
                                return Err(format!("{what}: captured bytes differ from the stream's (capacity {n}, field {} bytes)", full.len()));
                            }
                            if b[k..].iter().any(|&x| x != CANARY) {
                                return Err(format!("{what}: bytes beyond the copied field were modified (capacity {n}, field {} bytes)", full.len()));
                            }
                        }
                    }
                }
            }
            Ok(())
        };
        chk("extra", &f.extra, caps.0, head.extra, pe, false)?;
        if let Some(e) = &f.extra {
            if head.extra_len as usize != e.len() {
                return Err(format!("extra_len {} but the stream's extra field has {} bytes", head.extra_len, e.len()));
            }
        }
        chk("name", &f.name, caps.1, head.name, pn, true)?;
        chk("comment", &f.comment, caps.2, head.comment, pc, true)?;
        c.outcome(hash_u32s(&[hash_bytes(&stream[..hdr_len]) as u32, cuts.len() as u32, cuts.first().copied().unwrap_or(0) as u32, caps.0.as_u32(), caps.1.as_u32(), caps.2.as_u32()]));
        c.validated();
        Ok(())
    }
}

trait AsU32 {
    fn as_u32(self) -> u32;
}
impl AsU32 for Cap {
    fn as_u32(self) -> u32 {
        match self {
            Cap::Null => u32::MAX,
            Cap::N(n) => n as u32,
        }
    }
}

fn read_side(ctx: &mut Ctx, env: &Env) {
    let quick = ctx.quick();
    let renv = ReadEnv { ae: Arena::new(1 << 17), an: Arena::new(1 << 17), ac: Arena::new(1 << 17) };
    let body = text(3, 50);
    let deflated = build(&[Plan::Fixed(body.iter().map(|&b| crate::refs::builder::Tok::Lit(b)).collect())]);
    let mut fields = hfam::hdr_fields(quick);
    for f in fields.iter_mut() {
        f.xfl = 2;
        // the read side only needs moderate sizes
        for fld in [&mut f.extra, &mut f.name, &mut f.comment] {
            if let Some(v) = fld {
                if v.len() > 700 {
                    v.truncate(700);
                }
            }
        }
    }
    fields.dedup();
    for f in &fields {
        let hdr = f.write();
        let hl = hdr.len();
        let mut stream = hdr.clone();
        stream.extend_from_slice(&deflated);
        stream.extend_from_slice(&r3::gzip_trailer(&body));
        let le = f.extra.as_ref().map_or(0, |v| v.len());
        let ln = f.name.as_ref().map_or(0, |v| v.len() + 1);
        let lc = f.comment.as_ref().map_or(0, |v| v.len() + 1);
        // capacity patterns: the same kind for all three, and each varying while the others are ample
        let (ce, cn, cc) = (caps_for(le), caps_for(ln), caps_for(lc));
        let mut cap_sets: Vec<(Cap, Cap, Cap)> = vec![];
        for k in 0..6 {
            let pick = |v: &Vec<Cap>| v[k.min(v.len() - 1)];
            cap_sets.push((pick(&ce), pick(&cn), pick(&cc)));
        }
        for &x in &ce {
            cap_sets.push((x, Cap::N(ln + 1), Cap::N(lc + 1)));
        }
        for &x in &cn {
            cap_sets.push((Cap::N(le + 1), x, Cap::N(lc + 1)));
        }
        for &x in &cc {
            cap_sets.push((Cap::N(le + 1), Cap::N(ln + 1), x));
        }
        cap_sets.dedup();
        // chunkings: one shot, 1-byte pieces, every single split inside the header (+2 beyond)
        let mut chunkings: Vec<Vec<usize>> = vec![vec![], (1..stream.len()).collect()];
        let split_positions: Vec<usize> = if quick && hl > 60 {
            let mut v: Vec<usize> = (1..=14).collect();
            // around each field boundary
            let mut p = 10;
            for l in [if f.extra.is_some() { le + 2 } else { 0 }, ln, lc, if f.hcrc { 2 } else { 0 }] {
                p += l;
                for d in -1i64..=1 {
                    let x = p as i64 + d;
                    if x > 0 && (x as usize) < stream.len() {
                        v.push(x as usize);
                    }
                }
            }
            v.sort();
            v.dedup();
            v
        } else {
            (1..(hl + 3).min(stream.len())).collect()
        };
        for &p in &split_positions {
            chunkings.push(vec![p]);
        }
        for (ci, cuts) in chunkings.iter().enumerate() {
            for (k, caps) in cap_sets.iter().enumerate() {
                // quick: the full capacity lattice on one-shot and 1-byte chunkings; two patterns per single split
                if quick && ci >= 2 && k != (ci % cap_sets.len()) && k != 3 {
                    continue;
                }
                ctx.case(
                    "gzhdr-read",
                    || {
                        let l = |o: &Option<Vec<u8>>| o.as_ref().map_or("absent".to_string(), |v| v.len().to_string());
                        format!(
                            "header[extra={} name={} comment={} hcrc={} text={} mtime={} os={}] hdr_len={hl} cuts={} caps(extra,name,comment)={:?}",
                            l(&f.extra),
                            l(&f.name),
                            l(&f.comment),
                            f.hcrc as u8,
                            f.text as u8,
                            f.mtime,
                            f.os,
                            if cuts.len() > 3 { format!("every byte ({} pieces)", cuts.len() + 1) } else { format!("{cuts:?}") },
                            caps
                        )
                    },
                    |c| read_case(c, env, &renv, &stream, f, hl, &body, cuts, *caps, 0),
                );
                // the same on recycled streams (one-call and 1-byte chunkings, and every 5th single split)
                if ci < 2 || (ci + k) % 5 == 0 {
                    for recycle in 1..=3u8 {
                        ctx.case(
                            "gzhdr-read-recycled",
                            || format!("recycled stream (prior use {recycle}: 1 = abandoned mid stored block, 2 = abandoned inside a match, 3 = after a data error; then inflateReset) header[extra={:?} name={:?} comment={:?} hcrc={}] hdr_len={hl} cuts={} caps={:?}", f.extra.as_ref().map(|v| v.len()), f.name.as_ref().map(|v| v.len()), f.comment.as_ref().map(|v| v.len()), f.hcrc as u8, if cuts.len() > 3 { format!("every byte ({} pieces)", cuts.len() + 1) } else { format!("{cuts:?}") }, caps),
                            |c| read_case(c, env, &renv, &stream, f, hl, &body, cuts, *caps, recycle),
                        );
                    }
                }
            }
        }
    }
}

/// the header is handed over as a C struct of ints: every non-zero `text` / `hcrc` counts as set, `os` and `xflags`
/// are bytes, only the low 16 bits of `extra_len` count, an empty extra field (non-NULL, length 0) is still an extra
/// field. The bytes written are parsed with R3 and compared with zlib-ng's for the same struct.
fn c_int_fields(ctx: &mut Ctx, env: &Env) {
    let body = text(12, 40);
    let extras: [Option<(usize, u32)>; 4] = [None, Some((0, 0)), Some((5, 5)), Some((5, 0x1_0005))];
    for text_v in [0i32, 1, 2, -1, i32::MIN] {
        for hcrc_v in [0i32, 1, -1, 256] {
            for os_v in [3i32, 255, 256 + 7, -1] {
                for (ei, ex) in extras.iter().enumerate() {
                    // (xflags is documented as "not used when writing a gzip file": XFL follows from level and strategy)
                    for (time_v, xflags_v, level_v) in [(0u64, 0i32, 6i32), (0xFFFF_FFFF, 0, 6), (5, 2, 1), (5, 4, 9), (5, 0xFF, 6), (5, -1, 0), (5, 6, 2)] {
                        ctx.case(
                            "gzhdr-c-int-fields",
                            || format!("level {level_v}, gz_header {{ text: {text_v}, time: {time_v:#x}, xflags: {xflags_v}, os: {os_v}, hcrc: {hcrc_v}, extra: {:?} (bytes, extra_len), name \"n\" }} ; deflate(Z_FINISH) in rooms of 7", extras[ei]),
                            |c| unsafe {
                                let mut outs: Vec<Vec<u8>> = vec![];
                                for which in 0..2 {
                                    c.exec();
                                    let mut s = Strm::plain();
                                    let cfg = DCfg { level: level_v, strategy: 0, wbits: 15, mem_level: 8, wrap: Wrap::Gzip };
                                    let r = if which == 0 { deflate_init::<Rs>(&mut s, &cfg) } else { deflate_init::<Ng>(&mut s, &cfg) };
                                    if r != Z_OK {
                                        return Err("init".into());
                                    }
                                    let mut extra_buf = vec![9u8, 8, 7, 6, 5];
                                    let mut name = *b"n\0";
                                    let mut h = Box::new(zeroed_header());
                                    h.text = text_v;
                                    h.time = time_v as _;
                                    h.xflags = xflags_v;
                                    h.os = os_v;
                                    h.hcrc = hcrc_v;
                                    if let Some((_, len)) = ex {
                                        h.extra = extra_buf.as_mut_ptr();
                                        h.extra_len = *len;
                                    }
                                    h.name = name.as_mut_ptr();
                                    let r = if which == 0 { Rs::deflateSetHeader(s.p(), &mut *h) } else { Ng::deflateSetHeader(s.p(), &mut *h) };
                                    if r != Z_OK {
                                        return Err(format!("deflateSetHeader returned {}", rc_name(r)));
                                    }
                                    let pin = env.ain.put(&body, true);
                                    s.z.next_in = pin;
                                    s.z.avail_in = body.len() as u32;
                                    let mut out = vec![];
                                    for _ in 0..200 {
                                        let pout = env.aout.at_end(7);
                                        s.z.next_out = pout;
                                        s.z.avail_out = 7;
                                        let ret = if which == 0 { Rs::deflate(s.p(), Z_FINISH) } else { Ng::deflate(s.p(), Z_FINISH) };
                                        out.extend_from_slice(std::slice::from_raw_parts(pout, 7 - s.z.avail_out as usize));
                                        if ret == Z_STREAM_END {
                                            break;
                                        }
                                        if ret != Z_OK && ret != Z_BUF_ERROR {
                                            return Err(format!("deflate returned {}", rc_name(ret)));
                                        }
                                    }
                                    if which == 0 {
                                        Rs::deflateEnd(s.p());
                                    } else {
                                        Ng::deflateEnd(s.p());
                                    }
                                    outs.push(out);
                                }
                                // what RFC 1952 prescribes for this struct
                                let want = GzFields {
                                    text: text_v != 0,
                                    mtime: time_v as u32,
                                    xfl: 0,
                                    os: os_v as u8,
                                    extra: ex.map(|(_, len)| vec![9u8, 8, 7, 6, 5][..(len & 0xffff) as usize].to_vec()),
                                    name: Some(b"n".to_vec()),
                                    comment: None,
                                    hcrc: hcrc_v != 0,
                                    hcrc_val: 0,
                                };
                                let cfg = DCfg { level: level_v, strategy: 0, wbits: 15, mem_level: 8, wrap: Wrap::Gzip };
                                c05::check_stream(c, &cfg, &body, &outs[0], None, Some(&want))?;
                                if outs[0] != outs[1] {
                                    return Err(format!("header bytes differ from zlib-ng's for the same gz_header struct: {} vs {}", hex(&outs[0][..outs[0].len().min(24)]), hex(&outs[1][..outs[1].len().min(24)])));
                                }
                                c.outcome(hash_bytes(&outs[0]));
                                c.nontrivial();
                                c.validated();
                                Ok(())
                            },
                        );
                    }
                }
            }
        }
    }
}

pub fn run(ctx: &mut Ctx) {
    let env = Env::new();
    c_int_fields(ctx, &env);
    write_side(ctx, &env);
    read_side(ctx, &env);
}
