//! C12 — compressed bytes identical to zlib-ng for the same parameters, input and schedule.

use crate::api::*;
use crate::dfam;
use crate::drv::*;
use crate::engine::*;

pub const INFO: CheckInfo = CheckInfo {
    prop: "C12",
    level: "model_checking",
    rule: "same bounded exhaustive (configuration x input x schedule) families as C01, each history executed in lock-step on zlib-rs and on the reference implementation zlib-ng 2.3.3 (R6) linked into the same process; the complete output byte streams must be identical. Additional families: gzip headers and preset dictionaries. distinct_nontrivial = distinct compressed outputs; states/transitions = encoder abstract states via hook H3.",
    assumptions: &["zlib-ng 2.3.3 (vendored by libz-sys 1.1.29, zlib-compat mode) is the reference the repository's tests are pinned against", "inputs/configs/schedules outside the families are not covered"],
    bound_quick: "as C01 quick (shape stride 3) + 60 gzip-header / dictionary rows",
    bound_thorough: "as C01 thorough + full header/dictionary lattice",
};

pub fn first_diff(a: &[u8], b: &[u8]) -> String {
    let k = a.iter().zip(b).position(|(x, y)| x != y).unwrap_or(a.len().min(b.len()));
    format!("zlib-rs {} bytes, zlib-ng {} bytes, first difference at byte {k}", a.len(), b.len())
}

pub fn run(ctx: &mut Ctx) {
    let fams = dfam::build(ctx.quick());
    let env = Env::new();
    // copies run with an allocator that pre-fills every block: what a duplicate forgot to carry over is then a known,
    // wrong value in every repetition (not whatever malloc happened to return)
    let mut env_fill = Env::new();
    env_fill.guarded_alloc = Some(0xC3);
    let sel = dfam::Sel { tiny: true, shapes: true, big: true, sweep: true, shape_cfg_stride: if ctx.quick() { 3 } else { 1 } };
    dfam::for_each(ctx, &fams, sel, |ctx, it| {
        ctx.case(
            it.fam,
            || it.desc(),
            |c| {
                c.exec();
                let ex = DExtra { probe: true, ..Default::default() };
                let a = run_deflate::<Rs>(&it.cfg, &it.inp.data, it.sched, &env, &ex, Some(c))?;
                c.exec();
                let b = match run_deflate::<Ng>(&it.cfg, &it.inp.data, it.sched, &env, &DExtra::default(), None) {
                    Ok(b) => b,
                    Err(e) => {
                        // the reference itself misbehaves on this history: not comparable
                        c.count("reference_not_comparable", 1);
                        c.log(&format!("zlib-ng: {e}"));
                        return Ok(());
                    }
                };
                c.outcome(hash_bytes(&a.out));
                if it.sched_idx != 0 {
                    c.nontrivial();
                }
                if a.out != b.out {
                    if c.verbose {
                        for (n, o) in [("zlib-rs", &a.out), ("zlib-ng", &b.out)] {
                            let r = crate::refs::inflate_ref::inflate_raw(o, &crate::refs::inflate_ref::RefOpts::zlib());
                            println!("    {n}: calls {:?}", if n == "zlib-rs" { &a.calls } else { &b.calls });
                            for bl in r.blocks() {
                                println!("    {n}: block type {} last {} bits {}..{} out {}..{} maxdist {}", bl.btype, bl.last, bl.start_bit, bl.end_bit, bl.out_start, bl.out_end, bl.max_dist);
                            }
                        }
                    }
                    return Err(format!("compressed bytes differ from zlib-ng: {}", first_diff(&a.out, &b.out)));
                }
                // both libraries duplicate the stream after the k-th call and carry on with the copy
                if it.sched.tail_room != AMPLE && it.sched.tail_room >= 2 && a.calls.len() > 3 && (it.sched_idx + it.inp.data.len()) % 5 == 1 {
                    for k in [1usize, 2] {
                        c.exec();
                        let exk = DExtra { copy_after_call: k, ..Default::default() };
                        let ak = run_deflate::<Rs>(&it.cfg, &it.inp.data, it.sched, &env_fill, &exk, None)?;
                        if let Ok(bk) = run_deflate::<Ng>(&it.cfg, &it.inp.data, it.sched, &env_fill, &exk, None) {
                            if ak.out != bk.out {
                                return Err(format!("continued on a deflateCopy taken after call {k}, compressed bytes differ from zlib-ng: {}", first_diff(&ak.out, &bk.out)));
                            }
                        }
                    }
                }
                c.validated();
                Ok(())
            },
        );
    });
    crate::checks::c13::dict_and_header_lockstep(ctx, &env);
}
