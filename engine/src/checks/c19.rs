//! C19 — inflateBack equals inflate on in-window streams and is memory-safe on all input.

use crate::api::*;
use crate::drv::*;
use crate::engine::*;
use crate::mem::Arena;
use crate::refs::inflate_ref::*;
use crate::zfam;
use crate::zgen::WrapKind;
use std::ffi::c_void;

pub const INFO: CheckInfo = CheckInfo {
    prop: "C19",
    level: "model_checking",
    rule: "raw streams of the R4 corpus (valid and invalid) with every truncation and single-bit flip, plus all byte strings <= 2 (3) bytes, x windowBits 8..15 x input-callback slicings (ALL compositions for streams <= 9 bytes, otherwise one call, 1-byte slices, every single split, end-of-input (0-length slice) at every position) x output-callback abort at every callback index; the caller's window and every input slice live in guard-paged arenas (window in both placements). Safety (no signal/panic, documented status, termination) is required on everything. Where the strict reference decoder R2 (window = 1 << windowBits) finds every back-reference within min(window, bytes produced so far), inflateBack must hand the output callback exactly the bytes inflate produces, with corresponding verdict (stream end / data error / input exhausted) and unused-input count. distinct_nontrivial = distinct (status, output, unused input) outcomes. For every prefix (input callback returning 0 after i bytes, every i, strings <= 300 bytes) the verdict and output are those of inflate on exactly those i bytes.",
    assumptions: &["for back-references into the not-yet-written part of the caller's window only safety and termination are required (zlib: 'whatever the window contains')", "R2 trusted"],
    bound_quick: "corpus programs <= 3 tokens, windowBits {8,9,15} on every stream and 8..15 on intact streams; strings <= 2 bytes",
    bound_thorough: "windowBits 8..15 on every mutation; strings <= 3 bytes",
};

struct InCtx<'a> {
    data: &'a [u8],
    pos: usize,
    /// slice lengths to hand out, then everything that is left (or EOF if eof_after)
    plan: Vec<usize>,
    idx: usize,
    arena: &'a Arena,
    eof_after_plan: bool,
    calls: usize,
}

unsafe extern "C" fn in_cb(desc: *mut c_void, buf: *mut *const u8) -> u32 {
    let c = &mut *(desc as *mut InCtx);
    c.calls += 1;
    let remaining = c.data.len() - c.pos;
    let n = if c.idx < c.plan.len() {
        let n = c.plan[c.idx].min(remaining);
        c.idx += 1;
        n
    } else if c.eof_after_plan {
        0
    } else {
        remaining
    };
    if n == 0 {
        *buf = std::ptr::null();
        return 0;
    }
    let p = c.arena.put(&c.data[c.pos..c.pos + n], true);
    c.pos += n;
    *buf = p;
    n as u32
}

struct OutCtx {
    out: Vec<u8>,
    calls: usize,
    abort_at: usize,
    window: (usize, usize),
    bad_ptr: bool,
}

unsafe extern "C" fn out_cb(desc: *mut c_void, buf: *mut u8, len: u32) -> i32 {
    let c = &mut *(desc as *mut OutCtx);
    let p = buf as usize;
    if p < c.window.0 || p + len as usize > c.window.0 + c.window.1 {
        c.bad_ptr = true;
        return 1;
    }
    if c.calls == c.abort_at {
        c.calls += 1;
        return 1;
    }
    c.calls += 1;
    c.out.extend_from_slice(std::slice::from_raw_parts(buf, len as usize));
    0
}

pub struct BackRun {
    pub ret: i32,
    pub out: Vec<u8>,
    pub consumed: usize,
    pub out_calls: usize,
    pub in_eof: bool,
}

pub struct BackEnv {
    pub win: Arena,
    pub ain: Arena,
}

pub fn run_back<Zx: Z>(wbits: i32, data: &[u8], plan: &[usize], eof_after_plan: bool, abort_at: usize, env: &BackEnv, win_at_end: bool) -> Result<BackRun, String> {
    unsafe {
        let wsize = 1usize << wbits;
        let window = env.win.place(wsize, win_at_end);
        std::ptr::write_bytes(window, 0xEE, wsize);
        let mut s = Strm::guarded(0x77);
        let r = Zx::inflateBackInit_(s.p(), wbits, window, Zx::zlibVersion(), STREAM_SIZE);
        if r != Z_OK {
            return Err(format!("{}: inflateBackInit({wbits}) returned {}", Zx::NAME, rc_name(r)));
        }
        let mut ic = InCtx { data, pos: 0, plan: plan.to_vec(), idx: 0, arena: &env.ain, eof_after_plan, calls: 0 };
        let mut oc = OutCtx { out: vec![], calls: 0, abort_at, window: (window as usize, wsize), bad_ptr: false };
        s.z.next_in = std::ptr::null();
        s.z.avail_in = 0;
        let ret = Zx::inflateBack(s.p(), Some(in_cb), &mut ic as *mut InCtx as *mut c_void, Some(out_cb), &mut oc as *mut OutCtx as *mut c_void);
        let unused = s.z.avail_in as usize;
        let next_null = s.z.next_in.is_null();
        let e = Zx::inflateBackEnd(s.p());
        if oc.bad_ptr {
            return Err(format!("{}: output callback was handed memory outside the caller's window", Zx::NAME));
        }
        if !matches!(ret, Z_STREAM_END | Z_DATA_ERROR | Z_BUF_ERROR | Z_STREAM_ERROR) {
            return Err(format!("{}: inflateBack returned undocumented status {}", Zx::NAME, rc_name(ret)));
        }
        if e != Z_OK {
            return Err(format!("{}: inflateBackEnd returned {}", Zx::NAME, rc_name(e)));
        }
        if unused > ic.pos {
            return Err(format!("{}: inflateBack reports {unused} unused input bytes but only {} were supplied", Zx::NAME, ic.pos));
        }
        if ic.calls > data.len() + plan.len() + 8 {
            return Err(format!("{}: input callback called {} times for {} bytes", Zx::NAME, ic.calls, data.len()));
        }
        if let Some(ctl) = &s.ctl {
            if !ctl.live.is_empty() || !ctl.errors.is_empty() {
                return Err(format!("{}: allocator discipline after inflateBackEnd: {} live, {:?}", Zx::NAME, ctl.live.len(), ctl.errors));
            }
        }
        Ok(BackRun { ret, out: oc.out, consumed: ic.pos - unused, out_calls: oc.calls, in_eof: ret == Z_BUF_ERROR && next_null })
    }
}

/// is every back-reference within min(window, bytes produced so far)? (then inflateBack == inflate is demanded)
fn in_window(data: &[u8], wbits: i32) -> bool {
    match inflate_raw(data, &RefOpts::strict(1 << wbits)) {
        RefResult::Complete { .. } | RefResult::NeedMore { .. } => true,
        RefResult::Error { kind, .. } => !matches!(kind, ErrKind::BeyondWindow | ErrKind::TooFarBack | ErrKind::StrictIncomplete),
    }
}

fn compare(c: &mut Case, env: &Env, benv: &BackEnv, wbits: i32, data: &[u8]) -> Result<(), String> {
    // safety everywhere, both window placements
    let mut plans: Vec<(Vec<usize>, bool)> = vec![(vec![], false)];
    let n = data.len();
    if n >= 2 && n <= 9 {
        for mask in 0..(1u32 << (n - 1)) {
            let mut steps = vec![];
            let mut run = 1;
            for i in 0..n - 1 {
                if mask & (1 << i) != 0 {
                    steps.push(run);
                    run = 1;
                } else {
                    run += 1;
                }
            }
            steps.push(run);
            plans.push((steps, false));
        }
    } else if n >= 2 {
        plans.push((vec![1; n], false));
        let splits: Vec<usize> = if n <= 300 { (1..n).collect() } else { vec![1, 14, 15, 16, n / 2, n - 1] };
        for i in splits {
            plans.push((vec![i], false));
        }
    }
    // end of input at every position
    let eofs: Vec<usize> = if n <= 300 { (0..n).collect() } else { vec![0, 1, n / 2, n - 1] };
    for i in eofs {
        plans.push((if i == 0 { vec![] } else { vec![i] }, true));
    }
    let comparable = in_window(data, wbits);
    let reference = if comparable {
        c.exec();
        Some(run_inflate::<Rs>(-15, data, &ISched::one_shot(), env, &IExtra::default(), None)?)
    } else {
        c.count("not_comparable_references_outside_window", 1);
        None
    };
    let mut n_out_calls = 0;
    for (pi, (plan, eof)) in plans.iter().enumerate() {
        for at_end in [true, false] {
            if !at_end && pi % 4 != 0 {
                continue;
            }
            c.exec();
            let b = run_back::<Rs>(wbits, data, plan, *eof, usize::MAX, benv, at_end).map_err(|e| format!("{e} (slices {plan:?}, eof_after={eof})"))?;
            let sh = hash_u32s(&[b.ret as u32, b.in_eof as u32, wbits as u32, b.out_calls.min(3) as u32, (b.consumed == n) as u32]);
            c.state(sh);
            c.trans(hash_u32s(&[plan.len().min(3) as u32, *eof as u32]), sh);
            if pi == 0 && at_end {
                n_out_calls = b.out_calls;
                c.outcome(hash_u32s(&[b.ret as u32, hash_bytes(&b.out) as u32, b.consumed as u32]));
            }
            if let (Some(r), false) = (&reference, *eof) {
                let what = format!("slices {plan:?}");
                match r.fin {
                    Fin::StreamEnd => {
                        if b.ret != Z_STREAM_END || b.out != r.out || b.consumed != r.consumed {
                            return Err(format!("inflate: stream end, {} bytes out, {} consumed; inflateBack({wbits}): {} with {} bytes out, {} consumed ({what})", r.out.len(), r.consumed, rc_name(b.ret), b.out.len(), b.consumed));
                        }
                    }
                    Fin::DataError => {
                        if b.ret != Z_DATA_ERROR {
                            return Err(format!("inflate: data error; inflateBack({wbits}): {} ({what})", rc_name(b.ret)));
                        }
                        if !(b.out.len() <= r.out.len() && r.out[..b.out.len()] == b.out[..]) && !(r.out.len() <= b.out.len() && b.out[..r.out.len()] == r.out[..]) {
                            return Err(format!("bytes handed out before the data error contradict inflate's ({what})"));
                        }
                    }
                    Fin::NeedMore => {
                        if b.ret != Z_BUF_ERROR || !b.in_eof {
                            return Err(format!("inflate wants more input; inflateBack({wbits}): {} (input exhausted flag {}) ({what})", rc_name(b.ret), b.in_eof));
                        }
                        if b.out != r.out {
                            return Err(format!("truncated stream: inflate produced {} bytes, inflateBack handed out {} ({what})", r.out.len(), b.out.len()));
                        }
                    }
                    _ => {}
                }
            }
            // end of input after i bytes: the verdict is the one inflate gives on exactly those i bytes
            if *eof && n <= 300 {
                let i = plan.first().copied().unwrap_or(0);
                let prefix = &data[..i];
                if in_window(prefix, wbits) {
                    c.exec();
                    let r = run_inflate::<Rs>(-15, prefix, &ISched::one_shot(), env, &IExtra::default(), None)?;
                    let want = match r.fin {
                        Fin::StreamEnd => Some(Z_STREAM_END),
                        Fin::DataError => Some(Z_DATA_ERROR),
                        Fin::NeedMore => Some(Z_BUF_ERROR),
                        _ => None,
                    };
                    if let Some(w) = want {
                        if b.ret != w {
                            return Err(format!("input ends after {i} of {n} bytes: inflate on those bytes says {:?}, inflateBack({wbits}) returns {}", r.fin, rc_name(b.ret)));
                        }
                        if w != Z_DATA_ERROR && b.out != r.out {
                            return Err(format!("input ends after {i} of {n} bytes: inflate produced {} bytes, inflateBack handed out {}", r.out.len(), b.out.len()));
                        }
                    }
                }
            }
            if *eof && b.ret == Z_STREAM_END && plan.first().copied().unwrap_or(0) < n {
                // only possible when the stream really ends within the prefix
                if let Some(r) = &reference {
                    if r.fin != Fin::StreamEnd || r.consumed > plan.first().copied().unwrap_or(0) {
                        return Err(format!("inflateBack reports stream end on a prefix of {} bytes but the stream needs {}", plan.first().copied().unwrap_or(0), r.consumed));
                    }
                }
            }
        }
    }
    // abort in the output callback at every index
    for k in 0..n_out_calls.min(12) {
        c.exec();
        let b = run_back::<Rs>(wbits, data, &[], false, k, benv, true)?;
        if b.ret != Z_BUF_ERROR && b.ret != Z_DATA_ERROR {
            return Err(format!("output callback aborted at call {k} but inflateBack returned {}", rc_name(b.ret)));
        }
    }
    c.validated();
    Ok(())
}

pub fn run(ctx: &mut Ctx) {
    let quick = ctx.quick();
    let env = Env::new();
    let benv = BackEnv { win: Arena::new(1 << 15), ain: Arena::new(1 << 20) };
    let corp = zfam::corpus(quick);
    zfam::for_each(ctx, &corp, quick, false, |ctx, it| {
        if it.kind != WrapKind::Raw {
            return;
        }
        let wbs: Vec<i32> = if it.mut_idx == 0 || !quick { (8..=15).collect() } else { vec![8, 9, 15] };
        for wbits in wbs {
            ctx.case(
                "back-corpus",
                || format!("{} inflateBack windowBits={wbits}", it.desc()),
                |c| {
                    if it.mut_idx != 0 {
                        c.nontrivial();
                    }
                    compare(c, &env, &benv, wbits, it.bytes)
                },
            );
        }
    });
    let n = if quick { 2 } else { 3 };
    for s in zfam::short_strings(n) {
        for wbits in [8, 15] {
            ctx.case("back-short-strings", || format!("bytes={} inflateBack windowBits={wbits}", hex(&s)), |c| compare(c, &env, &benv, wbits, &s));
        }
    }
    // the D6 shape: fixed block, one literal, then a match whose distance exceeds a small window
    let far = crate::refs::builder::build(&[crate::refs::builder::Plan::Fixed(vec![crate::refs::builder::Tok::Lit(b'A'), crate::refs::builder::Tok::Match(3, 1000)])]);
    for wbits in 8..=15 {
        ctx.case("back-far-distance", || format!("bytes={} inflateBack windowBits={wbits}", hex(&far)), |c| compare(c, &env, &benv, wbits, &far));
    }
}
