//! C10 — results depend only on the calls made, not on CPU path, stale memory, alignment or threads.

use crate::api::*;
use crate::dfam;
use crate::drv::*;
use crate::engine::*;
use crate::inputs::*;
use crate::machine::*;
use std::sync::atomic::{AtomicPtr, Ordering};
use std::sync::{Arc, Condvar, Mutex};
use zlib_rs::verif_cpu as cpu;

pub const INFO: CheckInfo = CheckInfo {
    prop: "C10",
    level: "model_checking",
    rule: "twin executions over the shared (configuration x input x schedule) families and over decoder corpus streams: the reference execution (all CPU features, zeroed allocations, zeroed output buffers, end-aligned buffers) is compared call by call with (i) every CPU-feature mask {-avx2, -avx2-sse, -pclmulqdq, everything off} via hook H1, (ii) allocator garbage {0xFF, 0xA5}, output-buffer garbage {0xFF, 0x5A} and a stream reused after reset that first processed a DIFFERENT history (compressor: two histories, same payload; decoder: 30 earlier histories, then every short corpus stream incl. invalid ones whose back-references reach before the start of the new stream, compared with a fresh decoder), and streams duplicated with deflateCopy / inflateCopy under four allocator fill bytes, (iii) buffer misalignment 1, 3, 17, 31, 63 bytes; (iv) threads: a controlled scheduler (E2) runs 2-3 real threads, each driving its own stream (deflate / inflate / checksums), one runnable at a time, with scheduling points at every API call boundary and at every CPU-feature probe inside the library (H1 probe hook; the cached AVX2 detection is reset before each execution) and enumerates ALL schedules with at most 2 (3) preemptions by iterative-preemption-bounding DFS; every thread's outputs, statuses and counters must equal those of the same call list run alone. States = (thread, step) scheduler states, transitions = scheduling decisions; distinct_nontrivial = distinct twin/schedule outcomes (must collapse to the solo outcomes).",
    assumptions: &["the scheduler is sequentially consistent and cooperative: data races on plain memory that do not change results under some serialisation at the instrumented points are not visible (no race detector pass is run here)", "CPU variants that need another target (NEON, LSX, wasm) or a different build (AVX-512) are not covered by the run-time mask", "sandboxed x86-64 only"],
    bound_quick: "twins: tiny (every 3rd) + shape (stride 9) families, 4 masks, 4 garbage settings, 5 misalignments; threads: 6 thread-program sets, preemption bound 2",
    bound_thorough: "twins on all families (shape configurations: every 5th); threads: preemption bound 3",
};

// ------------------------------------------------------------------------------------------------
// E2: baton scheduler

#[derive(Clone, Debug)]
struct Point {
    running: usize,
    running_enabled: bool,
    enabled: Vec<usize>,
    chosen_idx: usize,
}

struct SState {
    current: usize,
    finished: Vec<bool>,
    prefix: Vec<usize>,
    points: Vec<Point>,
    diverged: bool,
}

struct Sched {
    m: Mutex<SState>,
    cv: Condvar,
}

static SCHED: AtomicPtr<Sched> = AtomicPtr::new(std::ptr::null_mut());
thread_local! {
    static TID: std::cell::Cell<usize> = const { std::cell::Cell::new(usize::MAX) };
}

impl Sched {
    /// decide who runs next; `me` is at a scheduling point (or has just finished)
    fn decide(&self, st: &mut SState, me: usize, me_enabled: bool) {
        let n = st.finished.len();
        let mut enabled: Vec<usize> = vec![];
        if me_enabled {
            enabled.push(me);
        }
        for t in 0..n {
            if t != me && !st.finished[t] {
                enabled.push(t);
            }
        }
        if enabled.is_empty() {
            st.current = usize::MAX;
            return;
        }
        let k = st.points.len();
        let idx = if k < st.prefix.len() {
            let i = st.prefix[k];
            if i >= enabled.len() {
                st.diverged = true;
                0
            } else {
                i
            }
        } else {
            0
        };
        st.points.push(Point { running: me, running_enabled: me_enabled, enabled: enabled.clone(), chosen_idx: idx });
        st.current = enabled[idx];
    }
    fn point(&self, me: usize) {
        let mut st = self.m.lock().unwrap();
        self.decide(&mut st, me, true);
        self.cv.notify_all();
        while st.current != me {
            st = self.cv.wait(st).unwrap();
        }
    }
    fn start(&self, me: usize) {
        let mut st = self.m.lock().unwrap();
        while st.current != me {
            st = self.cv.wait(st).unwrap();
        }
    }
    fn finish(&self, me: usize) {
        let mut st = self.m.lock().unwrap();
        st.finished[me] = true;
        self.decide(&mut st, me, false);
        self.cv.notify_all();
    }
}

static ALL_PROBES: std::sync::atomic::AtomicBool = std::sync::atomic::AtomicBool::new(false);

fn probe_hook(bit: u32) {
    // the only shared mutable state in the library is the cached AVX2 detection: its probes are always
    // scheduling points; the other probes only in the thorough tier (they multiply the schedule count)
    if bit != cpu::MASK_AVX2 && !ALL_PROBES.load(Ordering::Relaxed) {
        return;
    }
    let t = TID.with(|c| c.get());
    if t != usize::MAX {
        let p = SCHED.load(Ordering::Acquire);
        if !p.is_null() {
            unsafe { (*p).point(t) };
        }
    }
}

#[derive(Clone, Copy, Debug, PartialEq, Eq)]
enum Prog {
    Deflate { level: i32, wb: i32, ml: i32, calls: usize },
    Inflate { wb: i32, calls: usize },
    Cksum { calls: usize },
}

struct ThreadData {
    plain: Vec<u8>,
    packed_z: Vec<u8>,
    packed_raw: Vec<u8>,
}

/// run one thread program; `yield_point` is called at every API call boundary
fn run_prog(p: Prog, d: &ThreadData, env: &MEnv, yield_point: &dyn Fn()) -> Vec<u64> {
    let mut obs: Vec<u64> = vec![];
    unsafe {
        match p {
            Prog::Deflate { level, wb, ml, calls } => {
                yield_point();
                let mut m = match DMachine::init::<Rs>(level, wb, ml, 0, &d.plain, Strm::plain()) {
                    Ok(m) => m,
                    Err(r) => return vec![r as u64],
                };
                for k in 0..calls {
                    yield_point();
                    let flush = if k + 1 == calls { Z_FINISH } else if k % 2 == 0 { Z_NO_FLUSH } else { Z_SYNC_FLUSH };
                    let o = m.step::<Rs>(MOp::Call { flush, inn: if k + 1 == calls { usize::MAX } else { 120 }, room: AMPLE }, env);
                    obs.extend([o.ret as u64, o.din as u64, o.dout as u64, o.out_hash, o.total_in, o.total_out, o.adler]);
                }
                yield_point();
                obs.push(m.end::<Rs>() as u64);
            }
            Prog::Inflate { wb, calls } => {
                yield_point();
                let data = if wb < 0 { &d.packed_raw } else { &d.packed_z };
                let mut m = match IMachine::init::<Rs>(wb, data, Strm::plain()) {
                    Ok(m) => m,
                    Err(r) => return vec![r as u64],
                };
                for k in 0..calls {
                    yield_point();
                    let o = m.step::<Rs>(MOp::Call { flush: Z_NO_FLUSH, inn: if k + 1 == calls { usize::MAX } else { 40 }, room: AMPLE }, env);
                    obs.extend([o.ret as u64, o.din as u64, o.dout as u64, o.out_hash, o.total_in, o.total_out, o.adler]);
                }
                yield_point();
                obs.push(m.end::<Rs>() as u64);
            }
            Prog::Cksum { calls } => {
                for k in 0..calls {
                    yield_point();
                    let a = zlib_rs::adler32::adler32(1, &d.plain[k * 50..]);
                    yield_point();
                    let c = zlib_rs::crc32::crc32(0, &d.plain[k * 50..]);
                    obs.extend([a as u64, c as u64]);
                }
            }
        }
    }
    obs
}

struct Exec {
    obs: Vec<Vec<u64>>,
    points: Vec<Point>,
    diverged: bool,
}

fn run_schedule(progs: &[Prog], prefix: &[usize], d: &Arc<ThreadData>) -> Exec {
    let n = progs.len();
    let sched = Arc::new(Sched { m: Mutex::new(SState { current: 0, finished: vec![false; n], prefix: prefix.to_vec(), points: vec![], diverged: false }), cv: Condvar::new() });
    cpu::request_cache_reset();
    SCHED.store(Arc::as_ptr(&sched) as *mut Sched, Ordering::Release);
    cpu::set_probe_hook(Some(probe_hook));
    let handles: Vec<_> = (0..n)
        .map(|t| {
            let sched = sched.clone();
            let d = d.clone();
            let p = progs[t];
            std::thread::spawn(move || {
                TID.with(|c| c.set(t));
                let env = MEnv::new();
                sched.start(t);
                let s2 = sched.clone();
                let o = run_prog(p, &d, &env, &move || s2.point(t));
                TID.with(|c| c.set(usize::MAX));
                sched.finish(t);
                o
            })
        })
        .collect();
    let obs: Vec<Vec<u64>> = handles.into_iter().map(|h| h.join().expect("scheduled thread panicked")).collect();
    cpu::set_probe_hook(None);
    SCHED.store(std::ptr::null_mut(), Ordering::Release);
    let st = sched.m.lock().unwrap();
    Exec { obs, points: st.points.clone(), diverged: st.diverged }
}

fn explore_threads(c: &mut Case, progs: &[Prog], d: &Arc<ThreadData>, bound: usize, cap: usize) -> Result<(), String> {
    // solo reference: each program alone, no scheduler
    let env = MEnv::new();
    let solo: Vec<Vec<u64>> = progs.iter().map(|p| run_prog(*p, d, &env, &|| {})).collect();
    // iterative context bounding without repetition: prefixes are queued by the number of preemptions they contain,
    // and every schedule with k preemptions is run before any with k+1, so a cap leaves a completed bound behind
    let mut buckets: Vec<Vec<Vec<usize>>> = vec![vec![]; bound + 1];
    buckets[0].push(vec![]);
    let mut schedules = 0usize;
    let mut completed: i64 = -1;
    let mut capped = false;
    'levels: for level in 0..=bound {
        while let Some(prefix) = buckets[level].pop() {
            let x = run_schedule(progs, &prefix, d);
            schedules += 1;
            c.exec();
            heartbeat();
            if x.diverged {
                return Err(format!("MACHINERY: replaying schedule prefix {prefix:?} diverged (uncontrolled nondeterminism)"));
            }
            for (t, o) in x.obs.iter().enumerate() {
                if *o != solo[t] {
                    let k = o.iter().zip(&solo[t]).position(|(a, b)| a != b).unwrap_or(o.len().min(solo[t].len()));
                    let choices: Vec<usize> = x.points.iter().map(|p| p.enabled[p.chosen_idx]).collect();
                    return Err(format!("thread {t} ({:?}) observed a different result (first difference at observation {k}) than when run alone; schedule (thread chosen at each point): {choices:?}", progs[t]));
                }
            }
            c.outcome(hash_u32s(&x.points.iter().map(|p| p.enabled[p.chosen_idx] as u32).collect::<Vec<_>>()));
            let mut pre = 0usize;
            let mut prev_state: Option<u64> = None;
            for (i, p) in x.points.iter().enumerate() {
                let sh = hash_u32s(&[p.running as u32, p.running_enabled as u32, p.enabled.len() as u32, i.min(40) as u32]);
                c.state(sh);
                if let Some(ps) = prev_state {
                    c.trans(ps, sh);
                }
                prev_state = Some(sh);
                if i >= prefix.len() {
                    let cost = pre + if p.running_enabled { 1 } else { 0 };
                    if cost <= bound {
                        for alt in 1..p.enabled.len() {
                            let mut np: Vec<usize> = x.points[..i].iter().map(|q| q.chosen_idx).collect();
                            np.push(alt);
                            buckets[cost].push(np);
                        }
                    }
                }
                if p.running_enabled && p.chosen_idx != 0 {
                    pre += 1;
                }
            }
            if schedules >= cap {
                c.count("thread_schedule_cap_hit", 1);
                capped = true;
                break 'levels;
            }
        }
        completed = level as i64;
    }
    let _ = capped;
    c.count(if completed >= 2 { "thread_sets_complete_at_2_or_more_preemptions" } else if completed == 1 { "thread_sets_complete_at_1_preemption" } else { "thread_sets_complete_at_0_preemptions" }, 1);
    c.count("thread_schedules_explored", schedules as u64);
    // determinism of the harness: the default schedule twice
    let a = run_schedule(progs, &[], d);
    let b = run_schedule(progs, &[], d);
    if a.points.len() != b.points.len() || a.obs != b.obs {
        return Err("MACHINERY: the same schedule gave different executions".into());
    }
    Ok(())
}

// ------------------------------------------------------------------------------------------------

fn cmp_d(a: &DTrace, b: &DTrace, what: &str) -> Result<(), String> {
    if a.out != b.out {
        return Err(format!("{what}: compressed output differs ({} vs {} bytes, first difference at {:?})", a.out.len(), b.out.len(), a.out.iter().zip(&b.out).position(|(x, y)| x != y)));
    }
    if a.calls != b.calls || a.total_in != b.total_in || a.total_out != b.total_out || a.adler != b.adler {
        return Err(format!("{what}: per-call statuses/counters differ"));
    }
    Ok(())
}

fn cmp_i(a: &ITrace, b: &ITrace, what: &str) -> Result<(), String> {
    if a.out != b.out || a.fin != b.fin || a.consumed != b.consumed || a.calls != b.calls || a.adler != b.adler {
        return Err(format!("{what}: decompression differs ({} vs {} bytes out, {:?} vs {:?}, consumed {} vs {})", a.out.len(), b.out.len(), a.fin, b.fin, a.consumed, b.consumed));
    }
    Ok(())
}

pub fn run(ctx: &mut Ctx) {
    let quick = ctx.quick();
    let fams = dfam::build_depth(quick, 0);
    let base_env = Env::new();
    let masks: [(&str, u32); 4] = [("-avx2", cpu::MASK_AVX2), ("-avx2-sse", cpu::MASK_AVX2 | cpu::MASK_SSE | cpu::MASK_SSE42), ("-pclmulqdq", cpu::MASK_PCLMULQDQ), ("all off", cpu::MASK_AVX2 | cpu::MASK_SSE | cpu::MASK_SSE42 | cpu::MASK_PCLMULQDQ | cpu::MASK_AVX512)];
    let mut genv: Vec<(String, Env)> = vec![];
    for (ag, og) in [(0xFFu8, Some(0xFFu8)), (0xA5, Some(0x5A)), (0xFF, None), (0x00, Some(0xFF))] {
        let mut e = Env::new();
        e.guarded_alloc = Some(ag);
        e.out_fill = og;
        genv.push((format!("allocator garbage {ag:#x}, output garbage {og:?}"), e));
    }
    let mut aenv: Vec<(String, Env)> = vec![];
    for mis in [1usize, 3, 17, 31, 63] {
        let mut e = Env::new();
        e.misalign = mis;
        aenv.push((format!("buffers misaligned by {mis}"), e));
        let mut e2 = Env::new();
        e2.misalign = mis;
        e2.at_end = false;
        aenv.push((format!("buffers misaligned by {mis} from the start"), e2));
    }
    let mut zero_env = Env::new();
    zero_env.guarded_alloc = Some(0);
    zero_env.out_fill = Some(0);
    let sel = dfam::Sel { tiny: true, shapes: true, big: true, sweep: !quick, shape_cfg_stride: if quick { 9 } else { 5 } };
    dfam::for_each(ctx, &fams, sel, |ctx, it| {
        if quick && it.fam == "tiny" && (it.sched_idx + it.inp.data.len() + it.cfg.level as usize) % 8 != 0 {
            return;
        }
        // quick: the long inputs (checksum kernels over > NMAX bytes, window wrap) under the default schedule and one split only
        if quick && it.fam == "big" && (it.sched_idx > 1 || it.cfg.mem_level != 8 || it.cfg.strategy % 2 == 1) {
            return;
        }
        ctx.case(
            it.fam,
            || it.desc(),
            |c| {
                let ex = DExtra { probe: true, ..Default::default() };
                cpu::set_cpu_mask(0);
                c.exec();
                let base = run_deflate::<Rs>(&it.cfg, &it.inp.data, it.sched, &zero_env, &ex, Some(c))?;
                let wb = wb_for(it.cfg.wrap, it.cfg.wbits.max(9));
                let iex = IExtra { expect_out: it.inp.data.len(), ..Default::default() };
                let isched = if it.sched_idx % 2 == 0 { ISched::one_shot() } else { ISched::uniform(7, 263, Z_NO_FLUSH) };
                let ibase = run_inflate::<Rs>(wb, &base.out, &isched, &zero_env, &iex, None)?;
                c.outcome(base.outcome_hash());
                for (name, mask) in masks {
                    cpu::set_cpu_mask(mask);
                    c.exec();
                    let r = run_deflate::<Rs>(&it.cfg, &it.inp.data, it.sched, &zero_env, &ex, None).and_then(|t| cmp_d(&base, &t, &format!("CPU mask {name}")));
                    let r = r.and_then(|_| run_inflate::<Rs>(wb, &base.out, &isched, &zero_env, &iex, None)).and_then(|t| cmp_i(&ibase, &t, &format!("CPU mask {name}")));
                    cpu::set_cpu_mask(0);
                    r?;
                }
                for (k, (name, e)) in genv.iter().chain(aenv.iter()).enumerate() {
                    // quick: rotate through the garbage / alignment twins (each item gets 3 of the 14)
                    if quick && (k + it.sched_idx + it.inp.data.len()) % 5 != 0 {
                        continue;
                    }
                    c.exec();
                    let t = run_deflate::<Rs>(&it.cfg, &it.inp.data, it.sched, e, &ex, None)?;
                    cmp_d(&base, &t, name)?;
                    let t = run_inflate::<Rs>(wb, &base.out, &isched, e, &iex, None)?;
                    cmp_i(&ibase, &t, name)?;
                }
                // default allocator too (memory recycled by malloc)
                c.exec();
                let t = run_deflate::<Rs>(&it.cfg, &it.inp.data, it.sched, &base_env, &ex, None)?;
                cmp_d(&base, &t, "default allocator")?;
                if it.sched_idx != 0 {
                    c.nontrivial();
                }
                c.validated();
                Ok(())
            },
        );
    });
    // the checksum kernels alone, on long inputs (every CPU mask must give the value of the unmasked run)
    for (pname, data) in [("ff", rep(0xff, 1 << 20)), ("lcg", lcg_bytes(5, 300_000)), ("ramp", ramp(200_000))] {
        for chunk in [usize::MAX, 65536, 5568, 5552, 4097] {
            for off in [0usize, 1, 13, 31] {
                ctx.case(
                    "checksum-twins",
                    || format!("adler32/crc32 over {} bytes of {pname} starting at offset {off}, fed in pieces of {}", data.len() - off, if chunk == usize::MAX { "everything".to_string() } else { chunk.to_string() }),
                    |c| {
                        let d = &data[off..];
                        let run = || {
                            let (mut a, mut k) = (1u32, 0u32);
                            for piece in d.chunks(chunk.min(d.len())) {
                                a = zlib_rs::adler32::adler32(a, piece);
                                k = zlib_rs::crc32::crc32(k, piece);
                            }
                            (a, k)
                        };
                        cpu::set_cpu_mask(0);
                        c.exec();
                        let base = run();
                        for (name, mask) in masks {
                            cpu::set_cpu_mask(mask);
                            c.exec();
                            let r = run();
                            cpu::set_cpu_mask(0);
                            if r != base {
                                return Err(format!("CPU mask {name}: adler32/crc32 = {:#x}/{:#x}, unmasked run gives {:#x}/{:#x}", r.0, r.1, base.0, base.1));
                            }
                        }
                        c.outcome(hash_u32s(&[base.0, base.1]));
                        c.validated();
                        Ok(())
                    },
                );
            }
        }
    }
    // streams reused after reset with a different earlier history
    let menv = MEnv::new();
    let hist_a = text(3, 4000);
    let mut hist_b = lcg_bytes(7, 3000);
    hist_b.extend(rep(b'k', 1500));
    let payload = text(9, 2500);
    for level in 0..=9 {
        for (wb, ml) in [(15, 8), (-9, 1), (25, 2), (10, 1)] {
            for st in [0, 3] {
                ctx.case(
                    "reset-different-history",
                    || format!("deflateInit2(level={level}, windowBits={wb}, memLevel={ml}, strategy={st}) ; history A or B (partly consumed, output pending) ; deflateReset ; same payload"),
                    |c| unsafe {
                        let mut outs = vec![];
                        for (hist, garbage) in [(&hist_a, 0x00u8), (&hist_b, 0xFF)] {
                            c.exec();
                            let mut m = DMachine::init::<Rs>(level, wb, ml, st, hist, Strm::guarded(garbage)).map_err(|r| format!("init {r}"))?;
                            m.step::<Rs>(MOp::Call { flush: Z_NO_FLUSH, inn: 400, room: AMPLE }, &menv);
                            m.step::<Rs>(MOp::Call { flush: Z_SYNC_FLUSH, inn: 400, room: AMPLE }, &menv);
                            m.step::<Rs>(MOp::Call { flush: Z_NO_FLUSH, inn: 400, room: 3 }, &menv);
                            m.reset::<Rs>();
                            m.data = &payload;
                            m.pos = 0;
                            m.given = 0;
                            let mut obs = vec![];
                            for _ in 0..8 {
                                let o = m.step::<Rs>(MOp::Call { flush: Z_NO_FLUSH, inn: 400, room: AMPLE }, &menv);
                                obs.push((o.ret, o.din, o.dout, o.out_hash));
                            }
                            let o = m.step::<Rs>(MOp::Call { flush: Z_FINISH, inn: 0, room: AMPLE }, &menv);
                            obs.push((o.ret, o.din, o.dout, o.out_hash));
                            m.end::<Rs>();
                            outs.push((obs, m.out.clone()));
                        }
                        if outs[0] != outs[1] {
                            return Err("output after deflateReset depends on what the stream processed before the reset".into());
                        }
                        c.outcome(hash_bytes(&outs[0].1));
                        c.validated();
                        Ok(())
                    },
                );
            }
        }
    }
    // duplicated streams: what a copy (deflateCopy / inflateCopy) produces must not depend on what its freshly
    // allocated memory held (the allocator pre-fills every block with a different byte in each twin)
    {
        let mut cdata = text(21, 1500);
        cdata.extend(noise7(3, 1500));
        cdata.extend(rep(b'q', 400));
        let packed = run_deflate::<Ng>(&DCfg { level: 6, strategy: 0, wbits: 15, mem_level: 8, wrap: Wrap::Zlib }, &cdata, &DSched::one_shot(), &Env::new(), &DExtra::default(), None).expect("ref").out;
        for level in 0..=9 {
            for (wb, ml, st) in [(15, 8, 0), (-9, 1, 0), (31, 2, 1), (10, 1, 4), (-15, 9, 2), (15, 8, 3)] {
                for cut in [1usize, 400, 1700, 3000] {
                    ctx.case(
                        "copy-different-garbage",
                        || format!("deflateInit2(level={level}, windowBits={wb}, memLevel={ml}, strategy={st}) ; deflate({cut} bytes, NO_FLUSH) ; deflateCopy ; finish on the copy - allocator fill 0x00 / 0x01 / 0xFF / 0xA5"),
                        |c| unsafe {
                            let mut outs: Vec<(Vec<u64>, Vec<u8>)> = vec![];
                            for g in [0x00u8, 0x01, 0xFF, 0xA5] {
                                c.exec();
                                let mut m = DMachine::init::<Rs>(level, wb, ml, st, &cdata, Strm::guarded(g)).map_err(|r| format!("init {r}"))?;
                                m.step::<Rs>(MOp::Call { flush: Z_NO_FLUSH, inn: cut, room: AMPLE }, &menv);
                                let mut k = m.copy::<Rs>(Strm::plain()).map_err(|r| format!("deflateCopy returned {r}"))?;
                                m.end::<Rs>();
                                let mut obs = vec![];
                                for _ in 0..3 {
                                    let o = k.step::<Rs>(MOp::Call { flush: Z_FINISH, inn: usize::MAX, room: AMPLE }, &menv);
                                    obs.push(mix(o.ret as u64, mix(o.dout as u64, o.out_hash)));
                                }
                                k.end::<Rs>();
                                outs.push((obs, k.out.clone()));
                            }
                            if outs.iter().any(|o| *o != outs[0]) {
                                return Err("the output of a stream duplicated with deflateCopy depends on the contents of the memory the copy was allocated in".into());
                            }
                            c.outcome(hash_bytes(&outs[0].1));
                            c.validated();
                            Ok(())
                        },
                    );
                }
            }
        }
        for wb in [15, -15, 47] {
            let z: Vec<u8> = if wb == -15 { packed[2..packed.len() - 4].to_vec() } else { packed.clone() };
            for cut in [1usize, 10, 300, z.len() - 5] {
                for room in [7usize, 259, AMPLE] {
                    ctx.case(
                        "copy-different-garbage",
                        || format!("inflateInit2({wb}) ; inflate({cut} bytes, room {room}) ; inflateCopy ; rest on the copy - allocator fill 0x00 / 0x01 / 0xFF / 0xA5"),
                        |c| unsafe {
                            let mut outs: Vec<(Vec<u64>, Vec<u8>)> = vec![];
                            for g in [0x00u8, 0x01, 0xFF, 0xA5] {
                                c.exec();
                                let mut m = IMachine::init::<Rs>(wb, &z, Strm::guarded(g)).map_err(|r| format!("init {r}"))?;
                                m.step::<Rs>(MOp::Call { flush: Z_NO_FLUSH, inn: cut, room }, &menv);
                                let mut k = m.copy::<Rs>(Strm::plain()).map_err(|r| format!("inflateCopy returned {r}"))?;
                                m.end::<Rs>();
                                let mut obs = vec![];
                                for _ in 0..3 {
                                    let o = k.step::<Rs>(MOp::Call { flush: Z_NO_FLUSH, inn: usize::MAX, room: AMPLE }, &menv);
                                    obs.push(mix(o.ret as u64, mix(o.dout as u64, o.out_hash)));
                                }
                                let o = k.step::<Rs>(MOp::GetDict, &menv);
                                obs.push(o.aux);
                                k.end::<Rs>();
                                outs.push((obs, k.out.clone()));
                            }
                            if outs.iter().any(|o| *o != outs[0]) {
                                return Err("the output of a stream duplicated with inflateCopy depends on the contents of the memory the copy was allocated in".into());
                            }
                            c.outcome(hash_bytes(&outs[0].1));
                            c.validated();
                            Ok(())
                        },
                    );
                }
            }
        }
    }
    // the decoder side of the same: a decoder reset after different histories, then every corpus probe
    crate::checks::c14::inflate_reset_probes(ctx, &menv, "inflate-reset-different-history");
    // threads (E2)
    let denv = Env::new();
    let mut plain = text(3, 500);
    plain.extend(lcg_bytes(4, 200));
    let cfg = DCfg { level: 6, strategy: 0, wbits: 15, mem_level: 8, wrap: Wrap::Zlib };
    let packed_z = run_deflate::<Ng>(&cfg, &plain, &DSched::one_shot(), &denv, &DExtra::default(), None).expect("ref").out;
    let packed_raw = run_deflate::<Ng>(&DCfg { wrap: Wrap::Raw, ..cfg }, &plain, &DSched::one_shot(), &denv, &DExtra::default(), None).expect("ref").out;
    let td = Arc::new(ThreadData { plain, packed_z, packed_raw });
    let sets: Vec<Vec<Prog>> = vec![
        vec![Prog::Deflate { level: 6, wb: 15, ml: 8, calls: 3 }, Prog::Inflate { wb: 15, calls: 3 }],
        vec![Prog::Deflate { level: 1, wb: -15, ml: 1, calls: 3 }, Prog::Deflate { level: 9, wb: 31, ml: 9, calls: 3 }],
        vec![Prog::Inflate { wb: -15, calls: 3 }, Prog::Inflate { wb: 47, calls: 3 }],
        vec![Prog::Cksum { calls: 3 }, Prog::Deflate { level: 4, wb: 31, ml: 8, calls: 3 }],
        vec![Prog::Deflate { level: 6, wb: 15, ml: 8, calls: 2 }, Prog::Inflate { wb: 15, calls: 2 }, Prog::Cksum { calls: 2 }],
        vec![Prog::Deflate { level: 2, wb: 25, ml: 2, calls: 2 }, Prog::Deflate { level: 0, wb: -9, ml: 1, calls: 2 }, Prog::Inflate { wb: -15, calls: 2 }],
    ];
    let bound = if quick { 2 } else { 3 };
    let cap = if quick { 4000 } else { 200000 };
    ALL_PROBES.store(!quick, Ordering::Relaxed);
    for (si, progs) in sets.iter().enumerate() {
        ctx.case(
            "threads",
            || format!("thread programs {progs:?}, all schedules with at most {bound} preemptions (scheduling points: API call boundaries and CPU-feature probes), cap {cap}"),
            |c| {
                cpu::set_cpu_mask(0);
                explore_threads(c, progs, &td, bound, cap)?;
                c.nontrivial();
                c.validated();
                let _ = si;
                Ok(())
            },
        );
    }
}
