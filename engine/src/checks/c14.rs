//! C14 — copied streams behave identically and independently; reset equals fresh init.

use crate::api::*;
use crate::drv::*;
use crate::engine::*;
use crate::inputs::*;
use crate::machine::*;
use crate::optree::sequences;
use crate::refs::wrap::GzFields;

pub const INFO: CheckInfo = CheckInfo {
    prop: "C14",
    level: "model_checking",
    rule: "explicit enumeration of (prefix program, branching point, suffix program): for compression, all prefixes up to depth 2 (3) over {deflate with 7 (flush, input, room) shapes incl. 1-byte rooms that leave output pending, params, tune, set-dictionary, prime} on 7 configurations incl. a gzip stream with a 600-byte name (copy mid-header); for decompression, all prefixes up to depth 2 (3) over {inflate with 1-byte / 10-byte / block-wise / 259-byte-room calls that stop mid-header, mid-block and inside a partially copied match, sync, validate, prime} on 5 data sets incl. a corrupt one (copy after an error). At the branching point the stream is duplicated with deflateCopy/inflateCopy and all suffixes up to depth 2 are run in three ways: both streams in alternation, original ended first, copy ended first (allocations are unmapped on free, so any sharing faults). Every call's observables (status, bytes consumed/produced, output bytes, totals, adler, data_type, pending, dictionary) must equal those of the same program run without the copy. Reset: after every prefix, deflateReset / inflateReset / inflateReset2 / the Rust reset methods, then every suffix, compared call by call with a freshly initialised stream with the same parameters; and a decoder reset after each of 6 x 5 earlier histories is given every short stream of the R4 corpus (valid and invalid, incl. back-references reaching before the start of the new stream and undefined codes) and compared with a fresh decoder. Family deflate-abandon-reset: one deflate(Z_NO_FLUSH) of n bytes for every n <= 700 (lazy levels; lattice elsewhere) x 9 levels x 5 strategy/window/memLevel settings x 3 data sets, deflateReset, then the same calls on the reset and on a fresh stream. distinct_nontrivial = distinct suffix observation traces.",
    assumptions: &["prefixes/suffixes deeper than the bound and other argument values are not covered", "a fresh stream 'with the same parameters' uses the level/strategy last set by deflateParams"],
    bound_quick: "prefix depth 2, suffix depth 2",
    bound_thorough: "prefix depth 3, suffix depth 2",
};

fn strm() -> Strm {
    let mut s = Strm::guarded(0xB7);
    if let Some(c) = s.ctl.as_mut() {
        c.strict_uaf = true;
    }
    s
}

fn d_prefix_alphabet() -> Vec<MOp> {
    vec![
        MOp::Call { flush: Z_NO_FLUSH, inn: 400, room: AMPLE },
        MOp::Call { flush: Z_NO_FLUSH, inn: 400, room: 1 },
        MOp::Call { flush: Z_SYNC_FLUSH, inn: 100, room: AMPLE },
        MOp::Call { flush: Z_PARTIAL_FLUSH, inn: 1, room: 5 },
        MOp::Call { flush: Z_FULL_FLUSH, inn: 400, room: AMPLE },
        MOp::Call { flush: Z_BLOCK, inn: 400, room: 2 },
        MOp::Call { flush: Z_FINISH, inn: 400, room: 1 },
        MOp::Call { flush: Z_NO_FLUSH, inn: 0, room: 1 },
        MOp::Params(9, 0),
        MOp::Params(0, 0),
        MOp::SetDict(600),
        MOp::Tune(4, 4, 8, 4),
        MOp::Prime(3, 5),
    ]
}

fn d_suffix_alphabet() -> Vec<MOp> {
    vec![
        MOp::Call { flush: Z_NO_FLUSH, inn: 400, room: AMPLE },
        MOp::Call { flush: Z_NO_FLUSH, inn: 300, room: 3 },
        MOp::Call { flush: Z_SYNC_FLUSH, inn: 50, room: AMPLE },
        MOp::Call { flush: Z_FINISH, inn: usize::MAX, room: 9 },
        MOp::Params(1, 0),
        MOp::Pending,
        MOp::GetDict,
    ]
}

const D_TAIL: [MOp; 3] = [MOp::Call { flush: Z_FINISH, inn: usize::MAX, room: AMPLE }, MOp::Call { flush: Z_FINISH, inn: 0, room: AMPLE }, MOp::Pending];

struct DCfgM {
    level: i32,
    wb: i32,
    ml: i32,
    st: i32,
    header: bool,
}

unsafe fn d_init<'a>(cfg: &DCfgM, data: &'a [u8], hold: &mut Vec<GzHold>) -> Result<DMachine<'a>, String> {
    let mut m = DMachine::init::<Rs>(cfg.level, cfg.wb, cfg.ml, cfg.st, data, strm()).map_err(|r| format!("deflateInit2 returned {r}"))?;
    if cfg.header {
        let f = GzFields { os: 3, name: Some(lcg_bytes(3, 600).into_iter().map(|b| b | 1).collect()), comment: Some(vec![b'c'; 40]), extra: Some(vec![7; 30]), hcrc: true, ..Default::default() };
        let mut h = make_gz_header(&f);
        let r = Rs::deflateSetHeader(m.s.p(), &mut *h.head);
        if r != Z_OK {
            return Err(format!("deflateSetHeader returned {r}"));
        }
        hold.push(h);
    }
    Ok(m)
}

/// abstract observation states for the evidence: (call kind, status, consumed?, produced?)
fn record(c: &mut Case, ops: &[MOp], obs: &[MObs]) {
    let mut prev: Option<u64> = None;
    for (op, o) in ops.iter().zip(obs) {
        let kind = match op {
            MOp::Call { flush, .. } => *flush as u32,
            MOp::Params(..) => 10,
            MOp::Tune(..) => 11,
            MOp::SetDict(_) => 12,
            MOp::Pending => 13,
            MOp::GetDict => 14,
            MOp::Prime(..) => 15,
            MOp::Sync => 16,
            MOp::Validate(_) => 17,
        };
        let h = hash_u32s(&[kind, o.ret as u32, (o.din > 0) as u32, (o.dout > 0) as u32]);
        c.state(h);
        if let Some(p) = prev {
            c.trans(p, h);
        }
        prev = Some(h);
    }
}

fn cmp(what: &str, k: usize, op: &MOp, got: &MObs, want: &MObs) -> Result<(), String> {
    if got != want {
        return Err(format!("{what}: suffix op {k} {} observed {:?}, the uncopied/fresh run observed {:?}", op.tag(), got, want));
    }
    Ok(())
}

fn deflate_copy(ctx: &mut Ctx, env: &MEnv) {
    let quick = ctx.quick();
    let mut data = text(5, 2500);
    data.extend(lcg_bytes(8, 600));
    data.extend(rep(b'r', 900));
    let cfgs = [
        DCfgM { level: 6, wb: 15, ml: 8, st: 0, header: false },
        DCfgM { level: 1, wb: -9, ml: 1, st: 0, header: false },
        DCfgM { level: 0, wb: 9, ml: 1, st: 0, header: false },
        DCfgM { level: 9, wb: 25, ml: 1, st: 0, header: true },
        DCfgM { level: 4, wb: -15, ml: 2, st: 3, header: false },
        DCfgM { level: 2, wb: 10, ml: 1, st: 2, header: false },
        DCfgM { level: 3, wb: 31, ml: 9, st: 1, header: true },
    ];
    let pa = d_prefix_alphabet();
    let sa = d_suffix_alphabet();
    let mut suffixes: Vec<Vec<MOp>> = vec![];
    sequences(&sa, 2, |s| suffixes.push(s.to_vec()));
    for (ci, cfg) in cfgs.iter().enumerate() {
        sequences(&pa, if quick { 2 } else { 3 }, |prefix| {
            for (si, suffix) in suffixes.iter().enumerate() {
                for variant in 0..3 {
                    // quick: all three variants on every 3rd suffix, one variant otherwise
                    if quick && si % 3 != 0 && variant != si % 3 {
                        continue;
                    }
                    ctx.case(
                        "deflate-copy",
                        || format!("deflateInit2(level={}, windowBits={}, memLevel={}, strategy={}, gzip header={}) ; prefix [{}] ; deflateCopy ; suffix [{}] ; variant {}", cfg.level, cfg.wb, cfg.ml, cfg.st, cfg.header, prefix.iter().map(|o| o.tag()).collect::<Vec<_>>().join(" ; "), suffix.iter().map(|o| o.tag()).collect::<Vec<_>>().join(" ; "), ["alternate", "end original first", "end copy first"][variant]),
                        |c| unsafe {
                            let mut hold = vec![];
                            let full_suffix: Vec<MOp> = suffix.iter().copied().chain(D_TAIL).collect();
                            // reference: no copy
                            c.exec();
                            let mut r = d_init(cfg, &data, &mut hold)?;
                            for op in prefix {
                                r.step::<Rs>(*op, env);
                            }
                            let want: Vec<MObs> = full_suffix.iter().map(|op| r.step::<Rs>(*op, env)).collect();
                            r.end::<Rs>();
                            // branch
                            c.exec();
                            let mut a = d_init(cfg, &data, &mut hold)?;
                            for op in prefix {
                                a.step::<Rs>(*op, env);
                            }
                            let mut b = match a.copy::<Rs>(Strm::plain()) {
                                Ok(b) => b,
                                Err(rc) => return Err(format!("deflateCopy returned {}", rc_name(rc))),
                            };
                            match variant {
                                0 => {
                                    for (k, op) in full_suffix.iter().enumerate() {
                                        let oa = a.step::<Rs>(*op, env);
                                        let ob = b.step::<Rs>(*op, env);
                                        cmp("original (alternating with the copy)", k, op, &oa, &want[k])?;
                                        cmp("copy (alternating with the original)", k, op, &ob, &want[k])?;
                                    }
                                    a.end::<Rs>();
                                    b.end::<Rs>();
                                }
                                1 => {
                                    let e = a.end::<Rs>();
                                    if e != Z_OK && e != Z_DATA_ERROR {
                                        return Err(format!("deflateEnd(original) returned {}", rc_name(e)));
                                    }
                                    for (k, op) in full_suffix.iter().enumerate() {
                                        let ob = b.step::<Rs>(*op, env);
                                        cmp("copy after the original was ended", k, op, &ob, &want[k])?;
                                    }
                                    b.end::<Rs>();
                                }
                                _ => {
                                    let e = b.end::<Rs>();
                                    if e != Z_OK && e != Z_DATA_ERROR {
                                        return Err(format!("deflateEnd(copy) returned {}", rc_name(e)));
                                    }
                                    for (k, op) in full_suffix.iter().enumerate() {
                                        let oa = a.step::<Rs>(*op, env);
                                        cmp("original after the copy was ended", k, op, &oa, &want[k])?;
                                    }
                                    a.end::<Rs>();
                                }
                            }
                            if let Some(ctl) = &a.s.ctl {
                                if !ctl.live.is_empty() || !ctl.errors.is_empty() {
                                    return Err(format!("allocator discipline after ending original and copy: {} live blocks, {:?}", ctl.live.len(), ctl.errors));
                                }
                            }
                            record(c, &full_suffix, &want);
                            c.outcome(want.iter().fold(ci as u64, |h, o| mix(h, mix(o.out_hash, o.ret as u64))));
                            if !prefix.is_empty() {
                                c.nontrivial();
                            }
                            c.validated();
                            Ok(())
                        },
                    );
                }
            }
        });
    }
}

fn deflate_reset(ctx: &mut Ctx, env: &MEnv) {
    let quick = ctx.quick();
    let mut data = text(5, 2500);
    data.extend(lcg_bytes(8, 600));
    let cfgs = [DCfgM { level: 6, wb: 15, ml: 8, st: 0, header: false }, DCfgM { level: 1, wb: -9, ml: 1, st: 0, header: false }, DCfgM { level: 0, wb: 9, ml: 1, st: 0, header: false }, DCfgM { level: 9, wb: 31, ml: 2, st: 0, header: false }, DCfgM { level: 4, wb: -15, ml: 2, st: 3, header: false },
        // a gzip header whose 600-byte name does not fit the 512-byte pending buffer: 1-byte rooms stop inside the field,
        // and the header set with deflateSetHeader stays installed across deflateReset (as in zlib)
        DCfgM { level: 9, wb: 25, ml: 1, st: 0, header: true },
        DCfgM { level: 1, wb: 31, ml: 1, st: 0, header: true },
    ];
    let pa = d_prefix_alphabet();
    let sa = d_suffix_alphabet();
    let mut suffixes: Vec<Vec<MOp>> = vec![];
    sequences(&sa, 2, |s| suffixes.push(s.to_vec()));
    for cfg in &cfgs {
        sequences(&pa, if quick { 2 } else { 3 }, |prefix| {
            for suffix in &suffixes {
                ctx.case(
                    "deflate-reset",
                    || format!("deflateInit2(level={}, windowBits={}, memLevel={}, strategy={}) ; prefix [{}] ; deflateReset ; suffix [{}]  vs  fresh stream ; suffix", cfg.level, cfg.wb, cfg.ml, cfg.st, prefix.iter().map(|o| o.tag()).collect::<Vec<_>>().join(" ; "), suffix.iter().map(|o| o.tag()).collect::<Vec<_>>().join(" ; ")),
                    |c| unsafe {
                        let mut hold = vec![];
                        let full_suffix: Vec<MOp> = suffix.iter().copied().chain(D_TAIL).collect();
                        c.exec();
                        let mut a = d_init(cfg, &data, &mut hold)?;
                        let (mut level, mut st) = (cfg.level, cfg.st);
                        for op in prefix {
                            let o = a.step::<Rs>(*op, env);
                            if let (MOp::Params(l, s), Z_OK) = (op, o.ret) {
                                level = *l;
                                st = *s;
                            }
                        }
                        let r = a.reset::<Rs>();
                        if r != Z_OK {
                            return Err(format!("deflateReset returned {}", rc_name(r)));
                        }
                        // the reset stream restarts its data source where the fresh one starts
                        let used = a.given;
                        a.pos = used;
                        c.exec();
                        let fcfg = DCfgM { level, wb: cfg.wb, ml: cfg.ml, st, header: cfg.header };
                        let mut f = d_init(&fcfg, &data, &mut hold)?;
                        f.pos = used;
                        f.given = used;
                        for (k, op) in full_suffix.iter().enumerate() {
                            let oa = a.step::<Rs>(*op, env);
                            let of = f.step::<Rs>(*op, env);
                            cmp("reset stream", k, op, &oa, &of)?;
                        }
                        a.end::<Rs>();
                        f.end::<Rs>();
                        c.outcome(hash_bytes(&a.out));
                        c.validated();
                        Ok(())
                    },
                );
            }
        });
    }
}

/// A stream abandoned after ONE deflate(Z_NO_FLUSH) call that was given n bytes - for EVERY n up to 700 at every level -
/// then deflateReset: what the reset stream does with a fresh input must be what a fresh stream does (the matcher is
/// left in whatever state the n-th byte left it: a match waiting for lazy evaluation, a pending literal, a partly
/// filled symbol buffer, a non-empty bit buffer).
pub fn deflate_abandon_reset(ctx: &mut Ctx, env: &MEnv, family: &'static str) {
    let quick = ctx.quick();
    let sets: Vec<(&str, Vec<u8>)> = vec![("text", text(5, 1400)), ("runs", { let mut d = rep(b'a', 300); d.extend(text(9, 500)); d.extend(rep(b'b', 600)); d }), ("bytes", lcg_bytes(8, 1400))];
    for level in 1..=9 {
        for (st, wb, ml) in [(0, 15, 8), (1, -9, 1), (2, 15, 8), (3, -15, 9), (4, 31, 2)] {
            for (sn, data) in &sets {
                let lazy = level >= 7 && st <= 1;
                for n in 0..=700usize {
                    // every length where a lazily evaluated match can be left behind; a lattice elsewhere
                    let thin = if quick { 13 } else { 3 };
                    if !(lazy && *sn == "text") && n % thin != (level as usize + st as usize) % thin {
                        continue;
                    }
                    ctx.case(
                        family,
                        || format!("deflateInit2(level={level}, windowBits={wb}, memLevel={ml}, strategy={st}) ; deflate(Z_NO_FLUSH, {n} bytes of {sn}) ; deflateReset ; deflate(Z_FINISH, 1400 bytes)  vs  fresh stream ; deflate(Z_FINISH, 1400 bytes)"),
                        |c| unsafe {
                            let mut hold = vec![];
                            let cfg = DCfgM { level, wb, ml, st, header: false };
                            c.exec();
                            let mut a = d_init(&cfg, data, &mut hold)?;
                            let o = a.step::<Rs>(MOp::Call { flush: Z_NO_FLUSH, inn: n, room: AMPLE }, env);
                            if o.ret != Z_OK && !(n == 0 && o.ret == Z_BUF_ERROR) {
                                return Err(format!("deflate(Z_NO_FLUSH) returned {}", rc_name(o.ret)));
                            }
                            let r = a.reset::<Rs>();
                            if r != Z_OK {
                                return Err(format!("deflateReset returned {}", rc_name(r)));
                            }
                            a.pos = 0;
                            a.given = 0;
                            c.exec();
                            let mut f = d_init(&cfg, data, &mut hold)?;
                            let tail = [MOp::Call { flush: Z_FINISH, inn: 1400, room: AMPLE }, MOp::Call { flush: Z_FINISH, inn: 0, room: AMPLE }, MOp::Pending];
                            for (k, op) in tail.iter().enumerate() {
                                let oa = a.step::<Rs>(*op, env);
                                let of = f.step::<Rs>(*op, env);
                                cmp("reset stream", k, op, &oa, &of)?;
                            }
                            a.end::<Rs>();
                            f.end::<Rs>();
                            c.outcome(hash_bytes(&a.out) ^ n as u64);
                            c.validated();
                            Ok(())
                        },
                    );
                }
            }
        }
    }
}

pub struct IData {
    pub name: &'static str,
    pub wb: i32,
    pub bytes: Vec<u8>,
}

pub fn idata() -> Vec<IData> {
    let env = Env::new();
    let mut plain = text(4, 1500);
    plain.extend(rep(b'x', 700));
    plain.extend(lcg_bytes(2, 300));
    let mk = |wrap: Wrap, level: i32, gz: Option<&GzFields>| -> Vec<u8> {
        let cfg = DCfg { level, strategy: 0, wbits: 15, mem_level: 8, wrap };
        let sched = DSched { steps: vec![DStep::Feed { n: 700, room: AMPLE, flush: Z_FULL_FLUSH }], tail_room: AMPLE };
        run_deflate::<Ng>(&cfg, &plain, &sched, &env, &DExtra { gz, ..Default::default() }, None).expect("reference deflate").out
    };
    let gzf = GzFields { text: true, mtime: 5, os: 3, extra: Some(vec![1; 40]), name: Some(vec![b'n'; 30]), comment: Some(vec![b'c'; 30]), hcrc: true, ..Default::default() };
    let z = mk(Wrap::Zlib, 6, None);
    let mut corrupt = z.clone();
    let k = corrupt.len() / 2;
    corrupt[k] ^= 0x10;
    // > 2 windows of output with matches at distance 24000: after the window has wrapped, a copy must carry the
    // whole window, not only the part below the write position
    let blk = lcg_bytes(77, 24000);
    let mut far: Vec<u8> = vec![];
    for _ in 0..3 {
        far.extend_from_slice(&blk);
    }
    far.extend_from_slice(&blk[..9000]);
    let cfg9 = DCfg { level: 9, strategy: 0, wbits: 15, mem_level: 8, wrap: Wrap::Zlib };
    let far_z = run_deflate::<Ng>(&cfg9, &far, &DSched::one_shot(), &env, &DExtra::default(), None).expect("reference deflate").out;
    let early = {
        let cfg = DCfg { level: 6, strategy: 0, wbits: 15, mem_level: 8, wrap: Wrap::Zlib };
        let sched = DSched { steps: vec![DStep::Feed { n: 10, room: AMPLE, flush: Z_FULL_FLUSH }], tail_room: AMPLE };
        run_deflate::<Ng>(&cfg, &plain, &sched, &env, &DExtra::default(), None).expect("reference deflate").out
    };
    vec![
        IData { name: "zlib-early-flush", wb: 15, bytes: early },
        IData { name: "zlib-long-far-matches", wb: 15, bytes: far_z },
        IData { name: "zlib", wb: 15, bytes: z },
        IData { name: "gzip+header", wb: 31, bytes: mk(Wrap::Gzip, 9, Some(&gzf)) },
        IData { name: "raw-stored", wb: -15, bytes: mk(Wrap::Raw, 0, None) },
        IData { name: "corrupt-zlib", wb: 15, bytes: corrupt },
        IData { name: "zlib-auto", wb: 47, bytes: mk(Wrap::Zlib, 1, None) },
    ]
}

fn i_prefix_alphabet() -> Vec<MOp> {
    vec![
        MOp::Call { flush: Z_NO_FLUSH, inn: 1, room: AMPLE },
        MOp::Call { flush: Z_NO_FLUSH, inn: 10, room: 1 },
        MOp::Call { flush: Z_NO_FLUSH, inn: 100, room: 7 },
        MOp::Call { flush: Z_BLOCK, inn: usize::MAX, room: AMPLE },
        MOp::Call { flush: Z_NO_FLUSH, inn: usize::MAX, room: 259 },
        MOp::Call { flush: Z_NO_FLUSH, inn: 60, room: AMPLE },
        MOp::Call { flush: Z_NO_FLUSH, inn: usize::MAX, room: AMPLE },
        MOp::Call { flush: Z_TREES, inn: 40, room: 40 },
        MOp::Sync,
        MOp::Validate(0),
        MOp::Prime(3, 5),
    ]
}

fn i_suffix_alphabet() -> Vec<MOp> {
    vec![MOp::Call { flush: Z_NO_FLUSH, inn: usize::MAX, room: AMPLE }, MOp::Call { flush: Z_NO_FLUSH, inn: 10, room: 3 }, MOp::Call { flush: Z_FINISH, inn: usize::MAX, room: 300 }, MOp::Call { flush: Z_BLOCK, inn: 200, room: AMPLE }, MOp::GetDict, MOp::Validate(1)]
}

const I_TAIL: [MOp; 2] = [MOp::Call { flush: Z_NO_FLUSH, inn: usize::MAX, room: AMPLE }, MOp::GetDict];

/// (prefix ; inflateReset) on one stream, then the suffix on it and on a fresh stream built by `fresh`, compared
/// call by call. Returns the reset stream (still live) and whether an inflateSync of the prefix succeeded.
unsafe fn run_reset<'a>(c: &mut Case, ds: &'a IData, prefix: &[MOp], full_suffix: &[MOp], env: &MEnv, raw: bool, fresh: &dyn Fn() -> Result<IMachine<'a>, String>) -> Result<(IMachine<'a>, bool), String> {
    c.exec();
    let mut a = IMachine::init::<Rs>(ds.wb, &ds.bytes, strm()).map_err(|r| format!("init {r}"))?;
    let mut validate: Option<i32> = None;
    let mut synced = false;
    for op in prefix {
        let o = a.step::<Rs>(*op, env);
        if let (MOp::Validate(v), Z_OK) = (op, o.ret) {
            validate = Some(*v);
        }
        if let (MOp::Sync, Z_OK) = (op, o.ret) {
            synced = true;
        }
    }
    let r = a.reset::<Rs>(None);
    if r != Z_OK {
        a.end::<Rs>();
        return Err(format!("inflateReset returned {}", rc_name(r)));
    }
    c.exec();
    let mut f = fresh()?;
    // inflateValidate is a stream parameter that inflateReset keeps (as in zlib)
    if let Some(v) = validate {
        f.step::<Rs>(MOp::Validate(v), env);
    }
    let mut res = Ok(());
    for (k, op) in full_suffix.iter().enumerate() {
        let mut oa = a.step::<Rs>(*op, env);
        let mut of = f.step::<Rs>(*op, env);
        if ds.wb < 0 || raw {
            // the adler field of a raw stream has no meaning
            oa.adler = 0;
            of.adler = 0;
        }
        res = cmp("reset stream", k, op, &oa, &of);
        if res.is_err() {
            break;
        }
    }
    f.end::<Rs>();
    match res {
        Ok(()) => Ok((a, synced)),
        Err(e) => {
            a.end::<Rs>();
            Err(format!("{}{e}", if synced { "[after a successful inflateSync] " } else { "" }))
        }
    }
}

fn inflate_copy_and_reset(ctx: &mut Ctx, env: &MEnv) {
    let quick = ctx.quick();
    let sets = idata();
    let pa = i_prefix_alphabet();
    let sa = i_suffix_alphabet();
    let mut suffixes: Vec<Vec<MOp>> = vec![];
    sequences(&sa, 2, |s| suffixes.push(s.to_vec()));
    let mut prefixes: Vec<Vec<MOp>> = vec![];
    sequences(&pa, if quick { 2 } else { 3 }, |q| prefixes.push(q.to_vec()));
    // a successful inflateSync (the marker of the full flush lies within its reach) after the header and the first
    // block were decoded, and (data set zlib-early-flush) before the header was seen
    prefixes.push(vec![MOp::Call { flush: Z_BLOCK, inn: usize::MAX, room: AMPLE }, MOp::Call { flush: Z_BLOCK, inn: usize::MAX, room: AMPLE }, MOp::Sync]);
    prefixes.push(vec![MOp::Call { flush: Z_NO_FLUSH, inn: 10, room: 1 }, MOp::Call { flush: Z_BLOCK, inn: usize::MAX, room: AMPLE }, MOp::Sync]);
    prefixes.push(vec![MOp::Sync, MOp::Call { flush: Z_NO_FLUSH, inn: 60, room: AMPLE }]);
    for ds in &sets {
        for prefix in &prefixes {
            for (si, suffix) in suffixes.iter().enumerate() {
                for variant in 0..4 {
                    if quick && si % 4 != 0 && variant != si % 4 {
                        continue;
                    }
                    ctx.case(
                        if variant < 3 { "inflate-copy" } else { "inflate-reset" },
                        || format!("data={} inflateInit2({}) ; prefix [{}] ; {} ; suffix [{}]", ds.name, ds.wb, prefix.iter().map(|o| o.tag()).collect::<Vec<_>>().join(" ; "), ["inflateCopy, both alternate", "inflateCopy, end original first", "inflateCopy, end copy first", "inflateReset vs fresh"][variant], suffix.iter().map(|o| o.tag()).collect::<Vec<_>>().join(" ; ")),
                        |c| unsafe {
                            let full_suffix: Vec<MOp> = suffix.iter().copied().chain(I_TAIL).collect();
                            if variant == 3 {
                                // (prefix ; inflateReset) on one stream, the suffix on it and on a fresh stream built by `fresh`
                                let fresh_same = || IMachine::init::<Rs>(ds.wb, &ds.bytes, strm()).map_err(|r| format!("init {r}"));
                                let mut a = match run_reset(c, ds, prefix, &full_suffix, env, false, &fresh_same) {
                                    Ok((a, _)) => a,
                                    Err(e) if e.starts_with("[after a successful inflateSync]") => {
                                        // known finding F6: a successful inflateSync switches checksum verification off
                                        // (or, before the header was seen, switches the stream to raw mode) and inflateReset
                                        // does not switch it back. Precisely that, and nothing else, is tolerated: the reset
                                        // stream must then equal a fresh stream with inflateValidate(0) or a fresh raw stream.
                                        let fresh_nocheck = || {
                                            let mut f = IMachine::init::<Rs>(ds.wb, &ds.bytes, strm()).map_err(|r| format!("init {r}"))?;
                                            f.step::<Rs>(MOp::Validate(0), env);
                                            Ok(f)
                                        };
                                        let fresh_raw = || IMachine::init::<Rs>(-15, &ds.bytes, strm()).map_err(|r| format!("init {r}"));
                                        let alt = match run_reset(c, ds, prefix, &full_suffix, env, false, &fresh_nocheck) {
                                            Ok(x) => Ok(x),
                                            Err(e1) => run_reset(c, ds, prefix, &full_suffix, env, true, &fresh_raw).map_err(|e2| format!("vs fresh+inflateValidate(0): {e1} ; vs fresh raw: {e2}")),
                                        };
                                        match alt {
                                            Ok((a, _)) => {
                                                c.soft_violation(format!("inflateReset after a successful inflateSync does not restore checksum verification / the wrapper mode that inflateSync switched off, so the reset stream differs from a fresh one (zlib behaves the same): {e}"));
                                                a
                                            }
                                            Err(e3) => return Err(format!("{e} ;; {e3}")),
                                        }
                                    }
                                    Err(e) => return Err(e),
                                };
                                // inflateReset2 to another mode equals a fresh stream in that mode
                                let r = a.reset::<Rs>(Some(-15));
                                let mut g = IMachine::init::<Rs>(-15, &ds.bytes, strm()).map_err(|r| format!("init {r}"))?;
                                if r != Z_OK {
                                    return Err(format!("inflateReset2(-15) returned {}", rc_name(r)));
                                }
                                for (k, op) in full_suffix.iter().enumerate() {
                                    let mut oa = a.step::<Rs>(*op, env);
                                    let mut og = g.step::<Rs>(*op, env);
                                    // the adler field of a raw stream has no meaning: zlib leaves it untouched on reset
                                    oa.adler = 0;
                                    og.adler = 0;
                                    cmp("stream after inflateReset2(-15)", k, op, &oa, &og)?;
                                }
                                a.end::<Rs>();
                                g.end::<Rs>();
                                c.outcome(hash_bytes(&a.out));
                                c.validated();
                                return Ok(());
                            }
                            c.exec();
                            let mut r = IMachine::init::<Rs>(ds.wb, &ds.bytes, strm()).map_err(|r| format!("init {r}"))?;
                            for op in prefix {
                                r.step::<Rs>(*op, env);
                            }
                            let want: Vec<MObs> = full_suffix.iter().map(|op| r.step::<Rs>(*op, env)).collect();
                            r.end::<Rs>();
                            c.exec();
                            let mut a = IMachine::init::<Rs>(ds.wb, &ds.bytes, strm()).map_err(|r| format!("init {r}"))?;
                            for op in prefix {
                                a.step::<Rs>(*op, env);
                            }
                            let mut b = match a.copy::<Rs>(Strm::plain()) {
                                Ok(b) => b,
                                Err(rc) => return Err(format!("inflateCopy returned {}", rc_name(rc))),
                            };
                            match variant {
                                0 => {
                                    for (k, op) in full_suffix.iter().enumerate() {
                                        let oa = a.step::<Rs>(*op, env);
                                        let ob = b.step::<Rs>(*op, env);
                                        cmp("original (alternating with the copy)", k, op, &oa, &want[k])?;
                                        cmp("copy (alternating with the original)", k, op, &ob, &want[k])?;
                                    }
                                    a.end::<Rs>();
                                    b.end::<Rs>();
                                }
                                1 => {
                                    a.end::<Rs>();
                                    for (k, op) in full_suffix.iter().enumerate() {
                                        let ob = b.step::<Rs>(*op, env);
                                        cmp("copy after the original was ended", k, op, &ob, &want[k])?;
                                    }
                                    b.end::<Rs>();
                                }
                                _ => {
                                    b.end::<Rs>();
                                    for (k, op) in full_suffix.iter().enumerate() {
                                        let oa = a.step::<Rs>(*op, env);
                                        cmp("original after the copy was ended", k, op, &oa, &want[k])?;
                                    }
                                    a.end::<Rs>();
                                }
                            }
                            if let Some(ctl) = &a.s.ctl {
                                if !ctl.live.is_empty() || !ctl.errors.is_empty() {
                                    return Err(format!("allocator discipline after ending original and copy: {} live blocks, {:?}", ctl.live.len(), ctl.errors));
                                }
                            }
                            record(c, &full_suffix, &want);
                            c.outcome(want.iter().fold(7u64, |h, o| mix(h, mix(o.out_hash, o.ret as u64))));
                            if !prefix.is_empty() {
                                c.nontrivial();
                            }
                            c.validated();
                            Ok(())
                        },
                    );
                }
            }
        }
    }
}

/// A decoder reused after a reset for a DIFFERENT stream behaves like a fresh one: after each earlier history
/// (several data sets, stopped at several points) the stream is reset (inflateReset / inflateReset2 to raw mode)
/// and given each probe of the R4 corpus (valid and invalid programs, in particular back-references reaching
/// before the start of the new stream, undefined codes, and every H-code shape), whose every observable must equal
/// that of a freshly initialised decoder. Shared by C14 (reset == fresh) and C10 (no dependence on the earlier
/// contents of reused internal memory).
pub fn inflate_reset_probes(ctx: &mut Ctx, env: &MEnv, family: &'static str) {
    let quick = ctx.quick();
    let sets = idata();
    let corp = crate::zgen::base_raw(quick);
    let probes: Vec<&crate::zgen::Gen> = corp.iter().filter(|g| g.raw.len() <= 80).collect();
    let prefixes: Vec<Vec<MOp>> = vec![
        vec![],
        vec![MOp::Call { flush: Z_NO_FLUSH, inn: usize::MAX, room: AMPLE }],
        vec![MOp::Call { flush: Z_NO_FLUSH, inn: usize::MAX, room: 259 }],
        vec![MOp::Call { flush: Z_NO_FLUSH, inn: 100, room: 7 }],
        vec![MOp::Call { flush: Z_NO_FLUSH, inn: 60, room: AMPLE }, MOp::Call { flush: Z_BLOCK, inn: usize::MAX, room: AMPLE }],
    ];
    let stride = if quick { 3 } else { 1 };
    for (di, ds) in sets.iter().enumerate() {
        for (pi, prefix) in prefixes.iter().enumerate() {
            for to_raw in [false, true] {
                for chunk in 0..stride {
                    ctx.case(
                        family,
                        || format!("earlier history: data={} inflateInit2({}) ; prefix [{}] ; then {} ; every {stride}th probe of the corpus from #{chunk} ({} probes in all) vs a fresh decoder", ds.name, ds.wb, prefix.iter().map(|o| o.tag()).collect::<Vec<_>>().join(" ; "), if to_raw { "inflateReset2(-15)" } else { "inflateReset" }, probes.len()),
                        |c| unsafe {
                            let mode = if to_raw { -15 } else { ds.wb };
                            let kind = if mode < 0 { crate::zgen::WrapKind::Raw } else if mode & 16 != 0 && mode < 32 { crate::zgen::WrapKind::Gzip } else { crate::zgen::WrapKind::Zlib };
                            let mut a = IMachine::init::<Rs>(ds.wb, &ds.bytes, strm()).map_err(|r| format!("init {r}"))?;
                            let mut wrapped: Vec<Vec<u8>> = vec![];
                            for (k, g) in probes.iter().enumerate() {
                                if (k + di + pi) % stride != chunk {
                                    continue;
                                }
                                let data = g.expected.clone().unwrap_or_default();
                                wrapped.push(crate::zgen::wrap_stream(&g.raw, &data, kind, 0));
                            }
                            let mut h = 0u64;
                            let mut wi = 0;
                            for (k, g) in probes.iter().enumerate() {
                                if (k + di + pi) % stride != chunk {
                                    continue;
                                }
                                // rebuild the earlier history, then reset
                                let r0 = a.reset::<Rs>(Some(ds.wb));
                                if r0 != Z_OK {
                                    return Err(format!("inflateReset2({}) returned {}", ds.wb, rc_name(r0)));
                                }
                                a.data = &ds.bytes;
                                for op in prefix {
                                    a.step::<Rs>(*op, env);
                                }
                                let r = if to_raw { a.reset::<Rs>(Some(-15)) } else { a.reset::<Rs>(None) };
                                if r != Z_OK {
                                    return Err(format!("reset returned {}", rc_name(r)));
                                }
                                // SAFETY of lifetimes: `wrapped` outlives the machine's use of it (cleared below)
                                let bytes: &[u8] = &*(wrapped[wi].as_slice() as *const [u8]);
                                wi += 1;
                                a.data = bytes;
                                c.exec();
                                let mut f = IMachine::init::<Rs>(mode, bytes, strm()).map_err(|r| format!("init {r}"))?;
                                for (j, op) in I_TAIL.iter().enumerate() {
                                    let mut oa = a.step::<Rs>(*op, env);
                                    let mut of = f.step::<Rs>(*op, env);
                                    if mode < 0 {
                                        oa.adler = 0;
                                        of.adler = 0;
                                    }
                                    cmp(&format!("probe {} after the reset", g.name), j, op, &oa, &of)?;
                                    h = mix(h, mix(oa.out_hash, oa.ret as u64));
                                }
                                f.end::<Rs>();
                                c.count("reset_probes", 1);
                            }
                            a.data = &ds.bytes;
                            a.end::<Rs>();
                            c.outcome(h);
                            c.nontrivial();
                            c.validated();
                            Ok(())
                        },
                    );
                }
            }
        }
    }
}

fn rust_resets(ctx: &mut Ctx) {
    let data = text(5, 3000);
    for level in [0, 1, 6, 9] {
        for (hdr, wb) in [(true, 15u8), (false, 9), (true, 9)] {
            for cut in [0usize, 1, 100, 1500, 3000] {
                ctx.case(
                    "rust-reset",
                    || format!("Deflate::new(level={level}, zlib_header={hdr}, window_bits={wb}) ; compress({cut} bytes, NoFlush) ; reset ; compress(all, Finish)  vs  fresh ; then Inflate::reset likewise"),
                    |c| {
                        c.exec();
                        let mut out_a = vec![0u8; 8000];
                        let mut out_f = vec![0u8; 8000];
                        let mut scratch = vec![0u8; 8000];
                        let mut a = zlib_rs::Deflate::new(level, hdr, wb);
                        let _ = a.compress(&data[..cut], &mut scratch, zlib_rs::DeflateFlush::NoFlush);
                        a.reset();
                        if a.total_in() != 0 || a.total_out() != 0 {
                            return Err("Deflate::reset does not clear the totals".into());
                        }
                        let ra = a.compress(&data, &mut out_a, zlib_rs::DeflateFlush::Finish);
                        let mut f = zlib_rs::Deflate::new(level, hdr, wb);
                        let rf = f.compress(&data, &mut out_f, zlib_rs::DeflateFlush::Finish);
                        if ra != rf || a.total_out() != f.total_out() || out_a[..a.total_out() as usize] != out_f[..f.total_out() as usize] {
                            return Err(format!("Deflate::reset: {:?} / {} bytes vs fresh {:?} / {} bytes", ra, a.total_out(), rf, f.total_out()));
                        }
                        let z = &out_f[..f.total_out() as usize];
                        // Inflate::reset(zlib_header) resets to the default window (15)
                        let mut dec_a = vec![0u8; 4000];
                        let mut dec_f = vec![0u8; 4000];
                        let mut ia = zlib_rs::Inflate::new(hdr, wb);
                        let _ = ia.decompress(&z[..z.len().min(cut)], &mut scratch, zlib_rs::InflateFlush::NoFlush);
                        ia.reset(hdr);
                        if ia.total_in() != 0 || ia.total_out() != 0 {
                            return Err("Inflate::reset does not clear the totals".into());
                        }
                        let r1 = ia.decompress(z, &mut dec_a, zlib_rs::InflateFlush::Finish);
                        let mut fi = zlib_rs::Inflate::new(hdr, 15);
                        let r2 = fi.decompress(z, &mut dec_f, zlib_rs::InflateFlush::Finish);
                        if r1 != r2 || ia.total_out() != fi.total_out() || ia.total_in() != fi.total_in() || dec_a[..ia.total_out() as usize] != dec_f[..fi.total_out() as usize] {
                            return Err(format!("Inflate::reset: {:?} vs fresh {:?}", r1, r2));
                        }
                        if dec_f[..fi.total_out() as usize] != data[..] {
                            return Err("round trip through the Rust wrappers differs".into());
                        }
                        // a compressor reset with output still pending and a dictionary installed: both are forgotten
                        c.exec();
                        let mut b = zlib_rs::Deflate::new(level, hdr, wb);
                        let _ = b.set_dictionary(&data[100..700]);
                        let mut tiny = [0u8; 3];
                        let _ = b.compress(&data[..cut], &mut tiny, zlib_rs::DeflateFlush::SyncFlush);
                        b.reset();
                        let mut out_b = vec![0u8; 8000];
                        let rb = b.compress(&data, &mut out_b, zlib_rs::DeflateFlush::Finish);
                        if rb != rf || b.total_out() != f.total_out() || out_b[..b.total_out() as usize] != out_f[..f.total_out() as usize] {
                            return Err(format!("Deflate::reset after set_dictionary and a starved sync flush: {:?} / {} bytes vs fresh {:?} / {} bytes", rb, b.total_out(), rf, f.total_out()));
                        }
                        // a decoder created for the other wrapper, fed the stream (an error or not), then reset to this wrapper
                        c.exec();
                        let mut ib = zlib_rs::Inflate::new(!hdr, wb);
                        let _ = ib.decompress(z, &mut scratch, zlib_rs::InflateFlush::NoFlush);
                        ib.reset(hdr);
                        let mut dec_b = vec![0u8; 4000];
                        let r3 = ib.decompress(z, &mut dec_b, zlib_rs::InflateFlush::Finish);
                        if r3 != r2 || ib.total_out() != fi.total_out() || ib.total_in() != fi.total_in() || dec_b[..ib.total_out() as usize] != dec_f[..fi.total_out() as usize] {
                            return Err(format!("Inflate::new({}, {wb}) ; decompress ; reset({hdr}): {:?} vs a fresh Inflate::new({hdr}, 15) {:?}", !hdr, r3, r2));
                        }
                        // a decoder that has output in its window, reset to raw mode and given a stream whose first token
                        // reaches back before the start: rejected like on a fresh decoder
                        c.exec();
                        let far = crate::refs::builder::build(&[crate::refs::builder::Plan::Fixed(vec![crate::refs::builder::Tok::Match(10, 50)])]);
                        ia.reset(false);
                        let mut o1 = [0u8; 64];
                        let mut o2 = [0u8; 64];
                        let q1 = ia.decompress(&far, &mut o1, zlib_rs::InflateFlush::Finish);
                        let mut fr = zlib_rs::Inflate::new(false, 15);
                        let q2 = fr.decompress(&far, &mut o2, zlib_rs::InflateFlush::Finish);
                        if q1 != q2 || ia.total_out() != fr.total_out() || o1 != o2 {
                            return Err(format!("after Inflate::reset(false) a back-reference before the start of the new stream gives {:?} ({} bytes out), a fresh decoder {:?} ({} bytes out)", q1, ia.total_out(), q2, fr.total_out()));
                        }
                        c.outcome(hash_bytes(z));
                        c.validated();
                        Ok(())
                    },
                );
            }
        }
    }
}

pub fn run(ctx: &mut Ctx) {
    let env = MEnv::new();
    deflate_copy(ctx, &env);
    deflate_reset(ctx, &env);
    deflate_abandon_reset(ctx, &env, "deflate-abandon-reset");
    inflate_copy_and_reset(ctx, &env);
    inflate_reset_probes(ctx, &env, "inflate-reset-probes");
    rust_resets(ctx);
}
