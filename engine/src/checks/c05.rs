//! C05 — every emitted stream is RFC-conformant and decodable within the announced window.

use crate::api::*;
use crate::dfam;
use crate::drv::*;
use crate::engine::*;
use crate::inputs::{DCfg, Wrap};
use crate::refs::cksum;
use crate::refs::inflate_ref::*;
use crate::refs::wrap as r3;

pub const INFO: CheckInfo = CheckInfo {
    prop: "C05",
    level: "model_checking",
    rule: "same bounded exhaustive (configuration x input x schedule) families as C01; every produced stream is parsed by the strict reference (R3 header/trailer rules: CM, CINFO == announced windowBits-8, FCHECK, FLEVEL per zlib's level table, FDICT/DICTID, gzip ID/CM/FLG/MTIME/XFL/OS, Adler-32 / CRC-32+ISIZE) and decoded by R2 in strict mode (history limited to the announced window, complete codes, HLIT/HDIST in range, stored LEN/NLEN, exactly one final block, nothing after it); the strict decode must reproduce the input. distinct_nontrivial = distinct (header, block-type sequence, max distance) shapes seen; states = distinct block shapes (type, final flag, max-distance bucket, size bucket), transitions = consecutive block shapes.",
    assumptions: &["R2 strict mode and R3 are trusted (written from RFC 1950/1951/1952; cross-validated at start-up)", "streams for inputs/configs/schedules outside the families are not covered"],
    bound_quick: "as C01 quick (shape stride 3)",
    bound_thorough: "as C01 thorough",
};

pub fn expected_flevel(level: i32, strategy: i32) -> u8 {
    if strategy >= 2 || level < 2 {
        0
    } else if level < 6 {
        1
    } else if level == 6 {
        2
    } else {
        3
    }
}

pub fn expected_xfl(level: i32, strategy: i32) -> u8 {
    if level == 9 {
        2
    } else if strategy >= 2 || level < 2 {
        4
    } else {
        0
    }
}

/// Strict conformance of one emitted stream. `level`/`strategy` are the values in force when the
/// header was written (the initial ones).
pub fn check_stream(c: &mut Case, cfg: &DCfg, input: &[u8], out: &[u8], dict: Option<&[u8]>, gz: Option<&r3::GzFields>) -> Result<(), String> {
    let window = 1usize << cfg.wbits.max(9);
    let mut opts = RefOpts::strict(window);
    if let Some(d) = dict {
        // the encoder may reference at most one window of dictionary
        let keep = d.len().min(window);
        opts.dict = d[d.len() - keep..].to_vec();
    }
    let level = if cfg.level == -1 { 6 } else { cfg.level };
    let (body_off, trailer_len) = match cfg.wrap {
        Wrap::Raw => (0usize, 0usize),
        Wrap::Zlib => {
            let h = r3::parse_zlib_header(out).map_err(|e| format!("zlib header invalid: {e:?} ({})", hex(&out[..out.len().min(6)])))?;
            if h.cinfo as i32 != cfg.wbits.max(9) - 8 {
                return Err(format!("zlib header announces CINFO {} but the stream was configured with windowBits {}", h.cinfo, cfg.wbits));
            }
            if h.flevel != expected_flevel(level, cfg.strategy) {
                return Err(format!("zlib header FLEVEL {} but zlib's table gives {} for level {} strategy {}", h.flevel, expected_flevel(level, cfg.strategy), level, cfg.strategy));
            }
            match dict {
                Some(d) if !d.is_empty() || h.fdict => {
                    if !h.fdict {
                        return Err("dictionary installed but FDICT not set".into());
                    }
                    let want = cksum::adler32(1, d);
                    if h.dictid != want {
                        return Err(format!("DICTID {:#x} != adler32(dictionary) {:#x}", h.dictid, want));
                    }
                }
                _ => {
                    if h.fdict {
                        return Err("FDICT set without a dictionary".into());
                    }
                }
            }
            (h.len, 4)
        }
        Wrap::Gzip => {
            let (f, hl) = r3::parse_gzip_header(out).map_err(|e| format!("gzip header invalid: {e:?}"))?;
            match gz {
                None => {
                    if f.flg() != 0 || f.mtime != 0 {
                        return Err(format!("default gzip header must have FLG 0 and MTIME 0, got FLG {:#x} MTIME {}", f.flg(), f.mtime));
                    }
                    if f.os != 3 {
                        return Err(format!("default gzip header OS byte {} (expected 3 = Unix)", f.os));
                    }
                }
                Some(want) => {
                    let mut w = want.clone();
                    w.xfl = f.xfl; // XFL is chosen by the library
                    w.hcrc_val = 0; // (how the request was spelled is not in the stream)
                    if f != w {
                        return Err(format!("gzip header fields differ from those supplied: wrote {:?}, supplied {:?}", f, want));
                    }
                }
            }
            if f.xfl != expected_xfl(level, cfg.strategy) {
                return Err(format!("gzip XFL {} but zlib's rule gives {} for level {} strategy {}", f.xfl, expected_xfl(level, cfg.strategy), level, cfg.strategy));
            }
            (hl, 8)
        }
    };
    let r = inflate_raw_at(out, body_off * 8, &opts);
    let (dec, bits_used, blocks) = match r {
        RefResult::Complete { out, bits_used, blocks } => (out, bits_used, blocks),
        other => return Err(format!("strict reference decoder (window {window}) does not accept the deflate data: {}", other.tag())),
    };
    if dec != input {
        return Err(format!("strict decode yields {} bytes, input has {} (first difference at {:?})", dec.len(), input.len(), dec.iter().zip(input).position(|(a, b)| a != b)));
    }
    let body_end = (bits_used + 7) / 8;
    if out.len() != body_end + trailer_len {
        return Err(format!("stream is {} bytes but final block ends at byte {} and the trailer needs {}", out.len(), body_end, trailer_len));
    }
    match cfg.wrap {
        Wrap::Zlib => {
            if out[body_end..] != cksum::adler32(1, input).to_be_bytes() {
                return Err(format!("zlib trailer {} != Adler-32 of the data {:08x}", hex(&out[body_end..]), cksum::adler32(1, input)));
            }
        }
        Wrap::Gzip => {
            if out[body_end..body_end + 4] != cksum::crc32(0, input).to_le_bytes() || out[body_end + 4..] != (input.len() as u32).to_le_bytes() {
                return Err(format!("gzip trailer {} != CRC-32 {:08x} / ISIZE {}", hex(&out[body_end..]), cksum::crc32(0, input), input.len()));
            }
        }
        Wrap::Raw => {}
    }
    // shape statistics
    let mut prev: Option<u64> = None;
    let mut shape = vec![cfg.wrap as u32];
    for b in &blocks {
        let bucket = |x: usize| -> u32 {
            if x == 0 {
                0
            } else if x < 258 {
                1
            } else if x < window - 262 {
                2
            } else {
                3
            }
        };
        let h = hash_u32s(&[b.btype as u32, b.last as u32, bucket(b.max_dist), bucket(b.out_end - b.out_start)]);
        c.state(h);
        if let Some(p) = prev {
            c.trans(p, h);
        }
        prev = Some(h);
        shape.push(b.btype as u32);
        shape.push(bucket(b.max_dist));
    }
    c.outcome(hash_u32s(&shape));
    c.validated();
    Ok(())
}

pub fn run(ctx: &mut Ctx) {
    let fams = dfam::build(ctx.quick());
    let env = Env::new();
    // copies run with an allocator that pre-fills every block: what a duplicate forgot to carry over is then a known,
    // wrong value in every repetition (not whatever malloc happened to return)
    let mut env_fill = Env::new();
    env_fill.guarded_alloc = Some(0xC3);
    let sel = dfam::Sel { tiny: true, shapes: true, big: true, sweep: true, shape_cfg_stride: if ctx.quick() { 3 } else { 1 } };
    dfam::for_each(ctx, &fams, sel, |ctx, it| {
        // the decoded level/strategy in force when the header was written is the initial one
        ctx.case(
            it.fam,
            || it.desc(),
            |c| {
                c.exec();
                let t = run_deflate::<Rs>(&it.cfg, &it.inp.data, it.sched, &env, &DExtra::default(), None)?;
                if it.sched_idx != 0 {
                    c.nontrivial();
                }
                check_stream(c, &it.cfg, &it.inp.data, &t.out, None, None)?;
                // the stream carried on by a duplicate (deflateCopy after the first / second / third call, the original
                // ended) is as well-formed; on schedules that leave output pending between calls
                if it.sched.tail_room != AMPLE && it.sched.tail_room >= 2 && t.calls.len() > 3 && (it.sched_idx + it.inp.data.len()) % 3 == 0 {
                    for k in [1usize, 2, 3] {
                        c.exec();
                        let tk = run_deflate::<Rs>(&it.cfg, &it.inp.data, it.sched, &env_fill, &DExtra { copy_after_call: k, ..Default::default() }, None)?;
                        check_stream(c, &it.cfg, &it.inp.data, &tk.out, None, None).map_err(|e| format!("continued on a deflateCopy taken after call {k}: {e}"))?;
                    }
                }
                Ok(())
            },
        );
    });
    // gzip streams with caller-supplied headers (the lattice of C20's write side: field lengths around the
    // pending-buffer capacity, starved output) and streams with preset dictionaries (C13's rows): wrapper and body
    // must be well-formed there too
    let body = crate::inputs::text(12, 40);
    for row in crate::hfam::hdr_rows(ctx.quick()) {
        ctx.case(
            "gzip-header-rows",
            || row.desc(),
            |c| {
                c.exec();
                let t = run_deflate::<Rs>(&row.cfg, &body, &row.sched, &env, &DExtra { gz: Some(&row.gz), ..Default::default() }, None)?;
                c.nontrivial();
                check_stream(c, &row.cfg, &body, &t.out, None, Some(&row.gz))
            },
        );
    }
}
