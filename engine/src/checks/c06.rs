//! C06 — the compression API never aborts, stays in bounds, always makes progress.

use crate::api::*;
use crate::dfam;
use crate::drv::*;
use crate::engine::*;
use crate::optree::*;

pub const INFO: CheckInfo = CheckInfo {
    prop: "C06",
    level: "model_checking",
    rule: "explicit enumeration of ALL call sequences up to a depth over the alphabet {deflate(6 flush values x {300-byte piece, 1 byte, no input} x {ample, 1, 5 bytes of room}), deflateParams (2 targets), deflateTune, deflatePrime ((3,5),(16,0xffff),(32,-1),(33,0),(-1,0)), deflateSetDictionary (0,3,600 bytes), deflateSetHeader (small / 600-byte name), deflatePending, deflateBound, deflateReset, deflateResetKeep, deflateCopy (continue on the copy / end the copy), deflateGetDictionary, deflateEnd} after deflateInit2 over a lattice of legal configurations (and illegal ones, which must be rejected cleanly), each sequence finished by the default tail 'Finish with fresh 1-/64-byte rooms until stream end'; the same through the safe wrappers (Deflate::new_with_config / compress / set_dictionary / set_level / reset, compress_slice) under catch_unwind; plus long repetitions of single operations (prime, flush, params) and C01's schedule families re-run with guard pages and invariants. Oracle: no signal/panic (attributed by the explorer), documented status, cursors in bounds, hook-H3 structural invariants after every call, progress: the Finish tail reaches stream end within the call cap, a buffer-full status is never followed by a fatal one. Family abandon-reset-reuse (shared with C14): a stream abandoned after one deflate(Z_NO_FLUSH) of n bytes for every n <= 700 at the lazy levels (lattice elsewhere) x 9 levels x 5 settings x 3 data sets, deflateReset, next stream. States/transitions: abstract encoder states (H3).",
    assumptions: &["argument values outside the enumerated domains and sequences deeper than the bound are not covered", "hook H3 is read-only"],
    bound_quick: "depth 3 over 47 operations x 10 legal configurations; depth 1 on 14 illegal configurations; Rust wrapper trees depth 3; repetitions up to 400; C01 shape family with guards (stride 9)",
    bound_thorough: "depth 4 over a 30-operation alphabet and depth 3 over the full one; repetitions up to 2000; C01 families stride 1",
};

pub fn alphabet(full: bool) -> Vec<DOp> {
    let mut v = vec![];
    let shapes: &[(usize, usize)] = if full { &[(usize::MAX, AMPLE), (1, AMPLE), (usize::MAX, 1), (0, 5)] } else { &[(usize::MAX, AMPLE), (usize::MAX, 1), (0, 5)] };
    for flush in 0..=5 {
        for &(inn, room) in shapes {
            if !full && (flush == 1 || flush == 5) && room == 5 {
                continue;
            }
            v.push(DOp::Deflate { flush, inn, room });
        }
    }
    // output-limited calls whose room exceeds the smallest stored block (507 bytes at memLevel 1): the stored
    // encoder then copies straight from the input into next_out, after whatever bits are left in the bit buffer
    v.push(DOp::Deflate { flush: 0, inn: 2000, room: 600 });
    v.push(DOp::Deflate { flush: 4, inn: 2000, room: 520 });
    v.extend([DOp::Params(9, 0), DOp::Params(0, 2), DOp::Tune(4, 4, 8, 4), DOp::Prime(3, 5), DOp::Prime(6, 5), DOp::Prime(16, 0xffff), DOp::SetDict(600), DOp::SetHeader(1), DOp::Pending, DOp::Reset, DOp::Copy, DOp::End]);
    if full {
        v.extend([DOp::Prime(7, 0x55), DOp::Prime(32, -1), DOp::Prime(33, 0), DOp::Prime(-1, 0), DOp::SetDict(0), DOp::SetDict(3), DOp::SetHeader(0), DOp::SetHeader(2), DOp::Bound(1000), DOp::ResetKeep, DOp::CopyEndCopy, DOp::GetDict, DOp::Tune(0, 0, 0, 0), DOp::Tune(-1, 70000, 258, 65535)]);
    }
    v
}

pub fn legal_configs() -> Vec<(i32, i32, i32, i32, i32)> {
    // (level, method, windowBits argument, memLevel, strategy)
    vec![(6, 8, 15, 8, 0), (1, 8, -9, 1, 0), (0, 8, 9, 1, 0), (9, 8, 25, 2, 0), (2, 8, 31, 1, 3), (4, 8, -15, 9, 1), (-1, 8, 8, 1, 2), (3, 8, 10, 1, 4), (8, 8, -8, 3, 0), (5, 8, 24, 9, 0)]
}

pub fn illegal_configs() -> Vec<(i32, i32, i32, i32, i32)> {
    vec![(-2, 8, 15, 8, 0), (10, 8, 15, 8, 0), (6, 7, 15, 8, 0), (6, 8, 7, 8, 0), (6, 8, 16, 8, 0), (6, 8, -16, 8, 0), (6, 8, 32, 8, 0), (6, 8, 47, 8, 0), (6, 8, 15, 0, 0), (6, 8, 15, 10, 0), (6, 8, 15, 8, 5), (6, 8, 15, 8, -1), (6, 8, -7, 8, 0), (6, 8, 0, 8, 0)]
}

#[derive(Clone, Copy, Debug)]
enum ROp {
    Compress { flush: u8, inn: usize, room: usize },
    SetLevel(i32),
    SetDict(usize),
    Reset,
}

fn rust_wrappers(ctx: &mut Ctx, env: &OpEnv) {
    let mut alpha = vec![];
    for flush in [0u8, 2, 3, 4, 5, 1] {
        for (inn, room) in [(300usize, 4096usize), (1, 4096), (300, 1), (0, 5), (0, 0)] {
            alpha.push(ROp::Compress { flush, inn, room });
        }
    }
    alpha.extend([ROp::SetLevel(0), ROp::SetLevel(9), ROp::SetLevel(-1), ROp::SetLevel(10), ROp::SetDict(0), ROp::SetDict(600), ROp::Reset]);
    let cfgs: Vec<(i32, bool, u8, i32)> = vec![(6, true, 15, 8), (1, false, 9, 1), (0, true, 9, 1), (9, false, 15, 9), (4, true, 10, 2)];
    let depth = if ctx.quick() { 3 } else { 4 };
    for &(level, hdr, wb, ml) in &cfgs {
        let alpha_here: Vec<ROp> = if depth == 4 { alpha.iter().copied().step_by(2).collect() } else { alpha.clone() };
        sequences(&alpha_here, depth, |ops| {
            ctx.case(
                "rust-wrapper-tree",
                || format!("Deflate::new_with_config(level={level}, zlib_header={hdr}, window_bits={wb}, mem_level={ml}) ops={ops:?}"),
                |c| {
                    c.exec();
                    let config = zlib_rs::DeflateConfig { level, method: zlib_rs::Method::Deflated, window_bits: if hdr { wb as i32 } else { -(wb as i32) }, mem_level: ml, strategy: zlib_rs::Strategy::Default };
                    let mut d = zlib_rs::Deflate::new_with_config(config);
                    let mut src = 0usize;
                    let mut ended = false;
                    for op in ops {
                        match *op {
                            ROp::Compress { flush, inn, room } => {
                                let input: Vec<u8> = (0..inn).map(|k| env.data[(src + k) % env.data.len()]).collect();
                                let pin = unsafe { std::slice::from_raw_parts(env.ain.put(&input, true), inn) };
                                let pout = unsafe { std::slice::from_raw_parts_mut(env.aout.at_end(room), room) };
                                let f = match flush {
                                    0 => zlib_rs::DeflateFlush::NoFlush,
                                    1 => zlib_rs::DeflateFlush::PartialFlush,
                                    2 => zlib_rs::DeflateFlush::SyncFlush,
                                    3 => zlib_rs::DeflateFlush::FullFlush,
                                    4 => zlib_rs::DeflateFlush::Finish,
                                    _ => zlib_rs::DeflateFlush::Block,
                                };
                                let (ti, to) = (d.total_in(), d.total_out());
                                let r = d.compress(pin, pout, f);
                                let din = (d.total_in() - ti) as usize;
                                let dout = (d.total_out() - to) as usize;
                                if din > inn || dout > room {
                                    return Err(format!("Deflate::compress accounts {din} of {inn} in, {dout} of {room} out"));
                                }
                                src += din;
                                if let Ok(zlib_rs::Status::StreamEnd) = r {
                                    ended = true;
                                }
                            }
                            ROp::SetLevel(l) => {
                                let _ = d.set_level(l);
                            }
                            ROp::SetDict(n) => {
                                let _ = d.set_dictionary(&env.dict[..n]);
                            }
                            ROp::Reset => {
                                d.reset();
                                ended = false;
                            }
                        }
                    }
                    if !ended {
                        // progress: Finish with fresh 64-byte rooms
                        let mut calls = 0;
                        loop {
                            let pout = unsafe { std::slice::from_raw_parts_mut(env.aout.at_end(64), 64) };
                            let r = d.compress(&[], pout, zlib_rs::DeflateFlush::Finish);
                            calls += 1;
                            match r {
                                Ok(zlib_rs::Status::StreamEnd) => break,
                                Ok(_) => {}
                                Err(e) => return Err(format!("Deflate::compress(Finish) failed with {e:?} after {calls} tail calls")),
                            }
                            if calls > 4000 {
                                return Err("Finish through the Rust wrapper does not reach stream end".into());
                            }
                        }
                    }
                    c.validated();
                    Ok(())
                },
            );
        });
    }
    // compress_slice with bound / too small buffers
    for n in [0usize, 1, 300, 5000] {
        for room_delta in [-1i64, 0, 64] {
            for level in [0, 1, 6, 9] {
                ctx.case(
                    "compress_slice",
                    || format!("compress_slice(n={n}, level={level}, room=compress_bound{room_delta:+})"),
                    |c| {
                        c.exec();
                        let input: Vec<u8> = (0..n).map(|k| env.data[k % env.data.len()]).collect();
                        let bound = zlib_rs::compress_bound(n);
                        let room = (bound as i64 + room_delta).max(0) as usize;
                        let pin = unsafe { std::slice::from_raw_parts(env.ain.put(&input, true), n) };
                        let pout = unsafe { std::slice::from_raw_parts_mut(env.aout.at_end(room), room) };
                        let cfg = zlib_rs::DeflateConfig { level, ..Default::default() };
                        let (o, rc) = zlib_rs::compress_slice(pout, pin, cfg);
                        if room_delta >= 0 && rc != zlib_rs::ReturnCode::Ok {
                            return Err(format!("compress_slice into compress_bound({n})={bound} bytes returned {rc:?}"));
                        }
                        if o.len() > room {
                            return Err("compress_slice returned more than the buffer".into());
                        }
                        c.validated();
                        Ok(())
                    },
                );
            }
        }
    }
}

pub fn run(ctx: &mut Ctx) {
    let quick = ctx.quick();
    let env = OpEnv::new();
    // (0) a stream abandoned after n bytes for every n, reset and reused (shared with C14): no call may panic
    crate::checks::c14::deflate_abandon_reset(ctx, &crate::machine::MEnv::new(), "abandon-reset-reuse");
    // (1) op trees on the C API
    let full = alphabet(true);
    let small = alphabet(false);
    for (ci, &(level, method, wb, ml, st)) in legal_configs().iter().enumerate() {
        let plan: Vec<(&Vec<DOp>, usize)> = if quick { vec![(&full, if ci < 4 { 3 } else { 2 })] } else { vec![(&full, 3), (&small, 4)] };
        for (alpha, depth) in plan {
            let mut k = 0usize;
            sequences(alpha, depth, |ops| {
                k += 1;
                let tail_room = if k % 2 == 0 { 1 } else { 64 };
                ctx.case(
                    "c-api-tree",
                    || format!("deflateInit2(level={level}, method={method}, windowBits={wb}, memLevel={ml}, strategy={st}) ; {} ; tail finish(room={tail_room})", dops_desc(ops)),
                    |c| {
                        c.exec();
                        if !ops.is_empty() {
                            c.nontrivial();
                        }
                        let r = run_dops::<Rs>(level, method, wb, ml, st, ops, &env, true, true, tail_room, true, Some(c))?;
                        if let Some(k) = r.f2_cut_at {
                            c.soft_violation(format!("known hazard reached at op {k}: deflateResetKeep was called with unconsumed lookahead in the window and the stream is then switched to level 0; the continuation (not executed) never reaches Z_STREAM_END or aborts"));
                        }
                        c.outcome(mix(hash_bytes(&r.total_out), r.obs.iter().fold(0u64, |h, o| mix(h, o.ret as u64))));
                        c.validated();
                        Ok(())
                    },
                );
            });
        }
    }
    for &(level, method, wb, ml, st) in &illegal_configs() {
        sequences(&small, 1, |ops| {
            ctx.case(
                "c-api-illegal-config",
                || format!("deflateInit2(level={level}, method={method}, windowBits={wb}, memLevel={ml}, strategy={st}) ; {}", dops_desc(ops)),
                |c| {
                    c.exec();
                    let r = run_dops::<Rs>(level, method, wb, ml, st, ops, &env, true, true, 64, true, Some(c))?;
                    c.outcome(r.obs.iter().fold(7u64, |h, o| mix(h, o.ret as u64)));
                    c.validated();
                    Ok(())
                },
            );
        });
    }
    // (2) long repetitions of one operation (pending-buffer / bit-buffer pressure), then the tail
    let reps: Vec<usize> = if quick { vec![5, 64, 129, 400] } else { vec![5, 64, 129, 400, 1000, 2000] };
    let rep_ops = [DOp::Prime(32, -1), DOp::Prime(16, 0xffff), DOp::Prime(7, 0x55), DOp::Deflate { flush: 2, inn: 0, room: 1 }, DOp::Deflate { flush: 1, inn: 1, room: 3 }, DOp::Deflate { flush: 5, inn: 1, room: AMPLE }, DOp::Params(9, 0), DOp::Deflate { flush: 3, inn: 1, room: AMPLE }, DOp::SetHeader(1)];
    for &(level, method, wb, ml, st) in &legal_configs() {
        for op in rep_ops {
            for &n in &reps {
                for lead in [None, Some(DOp::Deflate { flush: 0, inn: usize::MAX, room: AMPLE })] {
                    ctx.case(
                        "c-api-repeat",
                        || format!("deflateInit2(level={level}, windowBits={wb}, memLevel={ml}, strategy={st}) ; lead={:?} ; {} x {n}", lead.map(|l| l.tag()), op.tag()),
                        |c| {
                            c.exec();
                            c.nontrivial();
                            let mut ops: Vec<DOp> = lead.into_iter().collect();
                            ops.extend(std::iter::repeat(op).take(n));
                            let r = run_dops::<Rs>(level, method, wb, ml, st, &ops, &env, true, true, 64, true, Some(c))?;
                            c.outcome(mix(hash_bytes(&r.total_out), n as u64));
                            c.validated();
                            Ok(())
                        },
                    );
                }
            }
        }
    }
    // (3) the safe wrappers
    rust_wrappers(ctx, &env);
    // (4) C01's schedule families with guard pages at both ends and H3 invariants
    let fams = dfam::build(quick);
    let mut env_a = Env::new();
    env_a.guarded_alloc = Some(0xA5);
    let mut env_b = Env::new();
    env_b.at_end = false;
    env_b.guarded_alloc = Some(0x5A);
    let sel = dfam::Sel { tiny: true, shapes: true, big: !quick, sweep: true, shape_cfg_stride: if quick { 9 } else { 1 } };
    dfam::for_each(ctx, &fams, sel, |ctx, it| {
        ctx.case(
            "schedules-guarded",
            || it.desc(),
            |c| {
                let ex = DExtra { probe: true, ..Default::default() };
                c.exec();
                let a = run_deflate::<Rs>(&it.cfg, &it.inp.data, it.sched, &env_a, &ex, Some(c))?;
                // second placement (buffers starting right after a guard page); in the quick tier not for the tiny and
                // sweep families, whose buffers are a few bytes long either way
                if !quick || (it.fam != "tiny" && it.fam != "sweep") || it.sched_idx % 4 == 0 {
                    c.exec();
                    let b = run_deflate::<Rs>(&it.cfg, &it.inp.data, it.sched, &env_b, &ex, None)?;
                    if a.out != b.out {
                        return Err("output depends on buffer placement".into());
                    }
                }
                c.outcome(a.outcome_hash());
                c.validated();
                Ok(())
            },
        );
    });
}
