//! C09 — adler32/crc32 and their combine functions equal the mathematical definitions (R1), on every
//! implementation variant this machine can execute, for every length / alignment / start value /
//! splitting in the stated bounds.

use crate::engine::*;
use crate::inputs::*;
use crate::mem::Arena;
use crate::refs::cksum as r1;
use zlib_rs::verif_cpu as cpu;

pub const INFO: CheckInfo = CheckInfo {
    prop: "C09",
    level: "model_checking",
    rule: "bounded exhaustive enumeration of (implementation variant x algorithm x data pattern x start value x buffer alignment 0..63 x every length in the bound), all 1- and 2-byte strings, every 2-piece split of fixed strings, every (|A|,|B|) pair for combine; each call compared with the definitional reference R1. A case is one (variant,algo,pattern,start,alignment) row; distinct_nontrivial counts distinct (variant,algo,len,result) outcomes. States = (variant, algo, len mod 64, len/64 class, NMAX class) reached; transitions = piecewise continuations between such states. Family state-zero: messages followed by the complement of their own CRC (register 0 at a word boundary) x lengths x starts x 16 alignments x tails x variants, whole and in two pieces; Adler-32 first sums landing exactly on 65521.",
    assumptions: &[
        "only x86-64 variants executable on this CPU are covered: AVX2 adler, generic adler, PCLMULQDQ fold, braid (run-time mask H1) and, when the avx512 build exists, AVX-512 adler / VPCLMULQDQ fold; NEON/ACLE/LSX/wasm variants are NOT covered",
        "R1 is the definition: bitwise CRC-32, per-byte-modulo Adler-32 (self-tested against published check values)",
        "lengths, start values and data patterns outside the enumerated sets are not covered",
    ],
    bound_quick: "lengths 0..=1300 all + NMAX/64-multiples lattice up to 3*NMAX+65, 64 alignments, 4 patterns, 5 starts, 2 run-time variants; all 1-/2-byte strings; all 2-splits of 300-byte strings; combine for |A|,|B| <= 40 and 10 huge len2",
    bound_thorough: "lengths 0..=3*NMAX+130 all, 64 alignments, 4 patterns, 5 starts; all 2-splits of 6000-byte strings; 3-splits on lattice; combine for |A|,|B| <= 70",
};

const NMAX: usize = 5552;

fn variants() -> Vec<(&'static str, u32)> {
    if cfg!(feature = "avx512") {
        // compile-time selected AVX-512 adler (VNNI flavour when built with +avx512vnni) / VPCLMULQDQ fold
        vec![(if cfg!(target_feature = "avx512vnni") { "avx512vnni+vpclmulqdq" } else { "avx512+vpclmulqdq" }, 0)]
    } else {
        vec![("simd", 0), ("generic", cpu::MASK_AVX2 | cpu::MASK_PCLMULQDQ | cpu::MASK_SSE42)]
    }
}

fn patterns(n: usize) -> Vec<(&'static str, Vec<u8>)> {
    vec![("zero", rep(0, n)), ("ff", rep(0xff, n)), ("ramp", ramp(n)), ("lcg", lcg_bytes(42, n))]
}

fn starts(algo: usize) -> Vec<u32> {
    if algo == 0 {
        // adler: valid values only (both halves < 65521)
        vec![1, 0, (65520 << 16) | 65520, (1234 << 16) | 65520, (65520 << 16) | 1]
    } else {
        vec![0, 1, 0xffff_ffff, 0x8000_0000, 0x1234_5678]
    }
}

#[inline]
fn run_algo(algo: usize, start: u32, d: &[u8]) -> u32 {
    if algo == 0 {
        zlib_rs::adler32::adler32(start, d)
    } else {
        zlib_rs::crc32::crc32(start, d)
    }
}
#[inline]
fn ref_algo(algo: usize, start: u32, d: &[u8]) -> u32 {
    if algo == 0 {
        r1::adler32(start, d)
    } else {
        r1::crc32(start, d)
    }
}

fn st(variant: usize, algo: usize, len: usize) -> u64 {
    hash_u32s(&[variant as u32, algo as u32, (len % 64) as u32, (len / 64).min(4) as u32, (len / NMAX).min(3) as u32])
}

pub fn run(ctx: &mut Ctx) {
    let quick = ctx.quick();
    let algos = ["adler32", "crc32"];
    let max_len = if quick { 3 * NMAX + 65 } else { 3 * NMAX + 130 };
    let mut lens: Vec<usize> = if quick { (0..=1300).collect() } else { (0..=max_len).collect() };
    if quick {
        for k in 1..=3 {
            for base in [k * NMAX, k * 64 * 20, k * NMAX + 64, k * 4096] {
                for d in -65i64..=65 {
                    let x = base as i64 + d;
                    if x > 1300 && (x as usize) <= max_len {
                        lens.push(x as usize);
                    }
                }
            }
        }
        lens.sort();
        lens.dedup();
    }
    let arena = Arena::new(max_len + 256);
    let pats = patterns(max_len + 64);

    // F1: every length x alignment
    for (vi, (vname, mask)) in variants().into_iter().enumerate() {
        for (ai, aname) in algos.iter().enumerate() {
            for (pname, pat) in &pats {
                for start in starts(ai) {
                    // reference values once per length (independent of alignment)
                    let mut refs: Option<Vec<u32>> = None;
                    for align in 0..64usize {
                        if ctx.next_is_mine() && refs.is_none() {
                            refs = Some(lens.iter().map(|&l| ref_algo(ai, start, &pat[..l])).collect());
                        }
                        let refs_ref = &refs;
                        let lens_ref = &lens;
                        let arena_ref = &arena;
                        ctx.case(
                            "len-align",
                            || format!("variant={vname} algo={aname} data={pname} start={start:#x} align={align} lens={}..={} ({} lengths)", lens_ref[0], lens_ref[lens_ref.len() - 1], lens_ref.len()),
                            |c| {
                                cpu::set_cpu_mask(mask);
                                let refs = refs_ref.as_ref().unwrap();
                                for (k, &l) in lens_ref.iter().enumerate() {
                                    // placement A: start address has the chosen alignment
                                    let base = arena_ref.at_start(0);
                                    let p = unsafe { base.add(64 + align) };
                                    unsafe { std::ptr::copy_nonoverlapping(pat.as_ptr(), p, l) };
                                    let got = run_algo(ai, start, unsafe { std::slice::from_raw_parts(p, l) });
                                    c.exec();
                                    if got != refs[k] {
                                        cpu::set_cpu_mask(0);
                                        return Err(format!("{aname}({start:#x}, {pname}[..{l}]) at alignment {align} = {got:#010x}, definition gives {:#010x}", refs[k]));
                                    }
                                    if align == 0 {
                                        // placement B: end of the data touches a PROT_NONE page (over-read faults)
                                        let p = arena_ref.put(&pat[..l], true);
                                        let got = run_algo(ai, start, unsafe { std::slice::from_raw_parts(p, l) });
                                        c.exec();
                                        if got != refs[k] {
                                            cpu::set_cpu_mask(0);
                                            return Err(format!("{aname}({start:#x}, {pname}[..{l}]) end-guarded = {got:#010x}, definition gives {:#010x}", refs[k]));
                                        }
                                        c.outcome(hash_u32s(&[vi as u32, ai as u32, l as u32, got]));
                                        c.state(st(vi, ai, l));
                                    }
                                }
                                c.validated();
                                cpu::set_cpu_mask(0);
                                Ok(())
                            },
                        );
                    }
                }
            }
        }
    }

    // F2: all 1-byte and 2-byte strings
    for (vi, (vname, mask)) in variants().into_iter().enumerate() {
        for (ai, aname) in algos.iter().enumerate() {
            for start in starts(ai) {
                for b0 in 0..=255u8 {
                    ctx.case(
                        "short-exhaustive",
                        || format!("variant={vname} algo={aname} start={start:#x} strings=[{b0:#04x}] and [{b0:#04x},*]"),
                        |c| {
                            cpu::set_cpu_mask(mask);
                            let r = (|| {
                                let s1 = [b0];
                                c.exec();
                                let g = run_algo(ai, start, &s1);
                                if g != ref_algo(ai, start, &s1) {
                                    return Err(format!("{aname}({start:#x},[{b0:#x}]) = {g:#x}"));
                                }
                                for b1 in 0..=255u8 {
                                    let s2 = [b0, b1];
                                    c.exec();
                                    let g = run_algo(ai, start, &s2);
                                    let e = ref_algo(ai, start, &s2);
                                    if g != e {
                                        return Err(format!("{aname}({start:#x},[{b0:#x},{b1:#x}]) = {g:#x}, definition gives {e:#x}"));
                                    }
                                    c.outcome(hash_u32s(&[vi as u32, ai as u32, 2, g]));
                                }
                                Ok(())
                            })();
                            cpu::set_cpu_mask(0);
                            c.validated();
                            r
                        },
                    );
                }
            }
        }
    }

    // F3: piecewise == whole, all 2-splits (and 3-splits on a lattice)
    let split_len = if quick { 300 } else { 6000 };
    let long_len = 2 * NMAX + 100;
    for (vi, (vname, mask)) in variants().into_iter().enumerate() {
        for (ai, aname) in algos.iter().enumerate() {
            for (pname, pat) in &pats {
                for (n, every) in [(split_len, true), (long_len, false)] {
                    ctx.case(
                        "split",
                        || format!("variant={vname} algo={aname} data={pname} n={n} splits={}", if every { "every position" } else { "NMAX/64 lattice" }),
                        |c| {
                            cpu::set_cpu_mask(mask);
                            let r = (|| {
                                let d = &pat[..n];
                                let start = if ai == 0 { 1 } else { 0 };
                                let whole = ref_algo(ai, start, d);
                                let positions: Vec<usize> = if every {
                                    (0..=n).collect()
                                } else {
                                    let mut v = vec![];
                                    for base in [0, 15, 16, 31, 32, 63, 64, 65, NMAX - 1, NMAX, NMAX + 1, NMAX + 63, NMAX + 64, 2 * NMAX, n - 64, n - 63, n - 1, n] {
                                        if base <= n {
                                            v.push(base);
                                        }
                                    }
                                    v
                                };
                                for &i in &positions {
                                    let p1 = run_algo(ai, start, &d[..i]);
                                    let p2 = run_algo(ai, p1, &d[i..]);
                                    c.exec();
                                    c.trans(st(vi, ai, i), st(vi, ai, n));
                                    if p2 != whole {
                                        return Err(format!("{aname} piecewise at {i}/{n} = {p2:#x}, whole (definition) = {whole:#x}"));
                                    }
                                }
                                // 3 pieces on the lattice
                                let lat: Vec<usize> = positions.iter().copied().filter(|&x| every && (x % 37 == 0 || x < 5 || x + 5 > n) || !every).collect();
                                for &i in &lat {
                                    for &j in &lat {
                                        if i <= j {
                                            let p1 = run_algo(ai, start, &d[..i]);
                                            let p2 = run_algo(ai, p1, &d[i..j]);
                                            let p3 = run_algo(ai, p2, &d[j..]);
                                            c.exec();
                                            c.trans(st(vi, ai, i), st(vi, ai, j));
                                            if p3 != whole {
                                                return Err(format!("{aname} piecewise at {i},{j}/{n} = {p3:#x}, whole = {whole:#x}"));
                                            }
                                        }
                                    }
                                }
                                c.outcome(hash_u32s(&[vi as u32, ai as u32, n as u32, whole, 3]));
                                Ok(())
                            })();
                            cpu::set_cpu_mask(0);
                            c.validated();
                            r
                        },
                    );
                }
            }
        }
    }

    // F4: combine, Rust API and C API, plus gen/op
    let cmax = if quick { 40 } else { 70 };
    let mut big: Vec<u64> = vec![0, 1, 65520, 65521, 65522, (1 << 31) - 1, 1 << 31, (1 << 32) - 1, 1 << 32, (1 << 32) + 5, (1 << 32) + 12345, (1 << 40) + 7, (1 << 62) + 3, (1u64 << 63) - 1];
    // every single power of two (each entry of a x^(2^k) table on its own), its neighbours, and sums of two adjacent powers
    for k in 0..63u32 {
        big.push(1u64 << k);
        big.push((1u64 << k) + 1);
        if k > 0 {
            big.push((1u64 << k) - 1);
            big.push((1u64 << k) | (1u64 << (k - 1)));
        }
    }
    big.sort();
    big.dedup();
    for (pname, pat) in &pats {
        for la in 0..=cmax {
            ctx.case(
                "combine",
                || format!("data={pname} |A|={la} |B|=0..={cmax} (crc32_combine, crc32_combine_gen+op, adler32_combine, C wrappers) + huge len2 list"),
                |c| {
                    let a = &pat[..la];
                    let ca = r1::crc32(0, a);
                    let aa = r1::adler32(1, a);
                    for lb in 0..=cmax {
                        let b = &pat[200..200 + lb];
                        let mut ab = a.to_vec();
                        ab.extend_from_slice(b);
                        let cb = r1::crc32(0, b);
                        let abd = r1::adler32(1, b);
                        let want_c = r1::crc32(0, &ab);
                        let want_a = r1::adler32(1, &ab);
                        c.exec();
                        let g1 = zlib_rs::crc32::crc32_combine(ca, cb, lb as u64);
                        let op = zlib_rs::crc32::crc32_combine_gen(lb as u64);
                        let g2 = zlib_rs::crc32::crc32_combine_op(ca, cb, op);
                        let g3 = libz_rs_sys::crc32_combine(ca as _, cb as _, lb as _) as u32;
                        let g4 = libz_rs_sys::crc32_combine64(ca as _, cb as _, lb as _) as u32;
                        let op2 = libz_rs_sys::crc32_combine_gen(lb as _);
                        let g5 = libz_rs_sys::crc32_combine_op(ca as _, cb as _, op2) as u32;
                        for (k, g) in [g1, g2, g3, g4, g5].into_iter().enumerate() {
                            if g != want_c {
                                return Err(format!("crc32 combine form {k}: |A|={la} |B|={lb}: got {g:#x}, crc(A||B) = {want_c:#x}"));
                            }
                        }
                        let h1 = zlib_rs::adler32::adler32_combine(aa, abd, lb as u64);
                        let h2 = libz_rs_sys::adler32_combine(aa as _, abd as _, lb as _) as u32;
                        let h3 = libz_rs_sys::adler32_combine64(aa as _, abd as _, lb as _) as u32;
                        for (k, g) in [h1, h2, h3].into_iter().enumerate() {
                            if g != want_a {
                                return Err(format!("adler32 combine form {k}: |A|={la} |B|={lb}: got {g:#x}, adler(A||B) = {want_a:#x}"));
                            }
                        }
                        c.outcome(hash_u32s(&[9, la as u32, lb as u32, g1, h1]));
                        c.trans(st(9, 1, la), st(9, 1, la + lb));
                    }
                    // huge len2: B unknown, only its checksum and length; compare with the algebraic reference
                    for &len2 in &big {
                        for crc2 in [0u32, 0xdead_beef] {
                            c.exec();
                            let want = r1::crc32_combine(ca, crc2, len2);
                            let g1 = zlib_rs::crc32::crc32_combine(ca, crc2, len2);
                            let g2 = zlib_rs::crc32::crc32_combine_op(ca, crc2, zlib_rs::crc32::crc32_combine_gen(len2));
                            let g3 = libz_rs_sys::crc32_combine64(ca as _, crc2 as _, len2 as i64) as u32;
                            if g1 != want || g2 != want || g3 != want {
                                return Err(format!("crc32_combine(crc1={ca:#x}, crc2={crc2:#x}, len2={len2}) = {g1:#x}/{g2:#x}/{g3:#x}, reference {want:#x}"));
                            }
                            // every C entry point takes the whole 64-bit offset (z_off_t is 64 bits wide here)
                            let g4 = libz_rs_sys::crc32_combine(ca as _, crc2 as _, len2 as _) as u32;
                            let g5 = libz_rs_sys::crc32_combine_op(ca as _, crc2 as _, libz_rs_sys::crc32_combine_gen(len2 as _)) as u32;
                            let g6 = libz_rs_sys::crc32_combine_op(ca as _, crc2 as _, libz_rs_sys::crc32_combine_gen64(len2 as i64)) as u32;
                            if std::mem::size_of::<libz_rs_sys::z_off_t>() == 8 && (g4 != want || g5 != want) || g6 != want {
                                return Err(format!("C entry points crc32_combine / crc32_combine_gen / crc32_combine_gen64 (crc1={ca:#x}, crc2={crc2:#x}, len2={len2}) = {g4:#x}/{g5:#x}/{g6:#x}, reference {want:#x}"));
                            }
                        }
                        for ad2 in [1u32, (65520 << 16) | 65520, (77 << 16) | 3] {
                            c.exec();
                            let want = r1::adler32_combine(aa, ad2, len2);
                            let g1 = zlib_rs::adler32::adler32_combine(aa, ad2, len2);
                            let g3 = libz_rs_sys::adler32_combine64(aa as _, ad2 as _, len2 as i64) as u32;
                            if g1 != want || g3 != want {
                                return Err(format!("adler32_combine(ad1={aa:#x}, ad2={ad2:#x}, len2={len2}) = {g1:#x}/{g3:#x}, reference {want:#x}"));
                            }
                            let g4 = libz_rs_sys::adler32_combine(aa as _, ad2 as _, len2 as _) as u32;
                            if std::mem::size_of::<libz_rs_sys::z_off_t>() == 8 && g4 != want {
                                return Err(format!("C entry point adler32_combine(ad1={aa:#x}, ad2={ad2:#x}, len2={len2}) = {g4:#x}, reference {want:#x}"));
                            }
                        }
                    }
                    c.validated();
                    Ok(())
                },
            );
        }
    }

    // F5: C entry points (uInt / size_t forms, NULL buffer)
    for (vi, (vname, mask)) in variants().into_iter().enumerate() {
        for (pname, pat) in &pats {
            ctx.case(
                "c-api",
                || format!("variant={vname} data={pname} adler32/adler32_z/crc32/crc32_z len 0..=400, NULL buffer"),
                |c| {
                    cpu::set_cpu_mask(mask);
                    let r = (|| unsafe {
                        for l in 0..=400usize {
                            let p = arena.put(&pat[..l], true);
                            c.exec();
                            let wa = r1::adler32(1, &pat[..l]);
                            let wc = r1::crc32(0, &pat[..l]);
                            let a1 = libz_rs_sys::adler32(1, p, l as u32) as u32;
                            let a2 = libz_rs_sys::adler32_z(1, p, l) as u32;
                            let c1 = libz_rs_sys::crc32(0, p, l as u32) as u32;
                            let c2 = libz_rs_sys::crc32_z(0, p, l) as u32;
                            if a1 != wa || a2 != wa || c1 != wc || c2 != wc {
                                return Err(format!("C API checksum len {l}: adler {a1:#x}/{a2:#x} want {wa:#x}; crc {c1:#x}/{c2:#x} want {wc:#x}"));
                            }
                            c.outcome(hash_u32s(&[vi as u32, 7, l as u32, a1, c1]));
                        }
                        if libz_rs_sys::adler32(5, std::ptr::null(), 10) != 1 || libz_rs_sys::crc32(5, std::ptr::null(), 10) != 0 {
                            return Err("NULL buffer must yield the initial value".into());
                        }
                        Ok(())
                    })();
                    cpu::set_cpu_mask(0);
                    c.validated();
                    r
                },
            );
        }
    }
    // F6: data that drives the internal state of the checksum to a special value - a message followed by the
    // complement of its own CRC (the CRC register becomes 0 at a word boundary, the value every table maps to 0), and
    // Adler-32 sums that land exactly on 65521 (= 0 modulo BASE) at the end of a block or of the scalar tail
    for (vi, (vname, mask)) in variants().into_iter().enumerate() {
        for la in [0usize, 8, 16, 24, 32, 40, 56, 64, 72, 128, 256, 1024, 4096] {
            ctx.case(
                "state-zero",
                || format!("variant={vname} crc32 of A || le32(!crc32(start, A)) || 00 00 00 00 || tail, |A|={la}, 3 starts x 16 alignments x 4 tails; adler32 sums landing on 65521"),
                |c| {
                    cpu::set_cpu_mask(mask);
                    let r = (|| {
                        let a = lcg_bytes(la as u32 + 7, la);
                        for start in [0u32, 0xFFFF_FFFF, 0x1234_5678] {
                            for tail in [0usize, 3, 8, 64] {
                                for zeros in [4usize, 8, 12] {
                                    let mut m = a.clone();
                                    m.extend_from_slice(&(!r1::crc32(start, &a)).to_le_bytes());
                                    m.extend(std::iter::repeat(0u8).take(zeros));
                                    m.extend(lcg_bytes(3, tail));
                                    let want = r1::crc32(start, &m);
                                    for align in 0..16usize {
                                        let base = arena.at_start(0);
                                        let p = unsafe { base.add(64 + align) };
                                        unsafe { std::ptr::copy_nonoverlapping(m.as_ptr(), p, m.len()) };
                                        let got = run_algo(1, start, unsafe { std::slice::from_raw_parts(p, m.len()) });
                                        c.exec();
                                        if got != want {
                                            return Err(format!("crc32({start:#x}, A || !crc(A) || {zeros} zero bytes || {tail}-byte tail) with |A|={la} at alignment {align} = {got:#010x}, definition gives {want:#010x}"));
                                        }
                                        // the same bytes in two pieces cut right after the embedded CRC
                                        let cut = la + 4;
                                        let s = unsafe { std::slice::from_raw_parts(p, m.len()) };
                                        let got2 = run_algo(1, run_algo(1, start, &s[..cut]), &s[cut..]);
                                        if got2 != want {
                                            return Err(format!("crc32 of the same bytes in two pieces (cut at {cut}) = {got2:#010x}, definition gives {want:#010x}"));
                                        }
                                    }
                                }
                            }
                        }
                        // Adler-32: the first sum reaches exactly BASE with the last byte of a (tail) block
                        if la <= 256 {
                            for k in 1..=255u32 {
                                for hi in [0u32, 1, 65520] {
                                    let start = (hi << 16) | (65521 - k);
                                    let mut m = rep(0, la);
                                    m.push(k as u8);
                                    let want = r1::adler32(start, &m);
                                    let p = arena.put(&m, false);
                                    let got = run_algo(0, start, unsafe { std::slice::from_raw_parts(p, m.len()) });
                                    c.exec();
                                    if got != want {
                                        return Err(format!("adler32({start:#x}, {la} zero bytes + byte {k}) = {got:#010x}, definition gives {want:#010x}"));
                                    }
                                }
                            }
                        }
                        c.outcome(hash_u32s(&[vi as u32, 9, la as u32]));
                        Ok(())
                    })();
                    cpu::set_cpu_mask(0);
                    c.validated();
                    r
                },
            );
        }
    }
}
