//! C04 — decompression outcome is independent of input/output chunking and flush mode.

use crate::api::*;
use crate::drv::*;
use crate::engine::*;
use crate::zfam;

pub const INFO: CheckInfo = CheckInfo {
    prop: "C04",
    level: "model_checking",
    rule: "for every stream of the R4 corpus (valid, invalid, truncated; raw/zlib/gzip) and a lattice of its single-fault mutations: the one-call ample-buffer run is the reference execution; then ALL compositions of the input into pieces (streams <= 10 bytes) x output room {1,2,ample}, every single split position (streams <= 300 bytes), 1-byte input pieces, output rooms {1,2,3,257..261, 32767..32769}, each of the five flush values applied to every call and to the first call only; for intact streams encoding <= 700 bytes additionally EVERY position of the first output-buffer end (room r for the first call, r = 1..len-1, then ample) and every uniform room size 4..300. Output bytes, final verdict and consumed input must equal the reference execution. States/transitions: decoder resume states (mode, bit-buffer fill, last-block, window fill/ match-length buckets) observed through hook H2 after every call; the run is rejected as vacuous unless every resumable mode was entered.",
    assumptions: &["schedules with more than one split on streams > 10 bytes, other room sizes, and streams outside the corpus are not covered", "hook H2 is read-only"],
    bound_quick: "corpus programs <= 3 tokens, every 5th mutation, SI-all for streams <= 9 bytes",
    bound_thorough: "every mutation, SI-all for streams <= 12 bytes",
};

fn same(base: &ITrace, t: &ITrace, what: &str) -> Result<(), String> {
    if t.fin != base.fin {
        return Err(format!("{what}: final verdict {:?}, one-call run gives {:?}", t.fin, base.fin));
    }
    if t.out != base.out {
        return Err(format!("{what}: output differs ({} bytes vs {} in the one-call run, first difference at {:?})", t.out.len(), base.out.len(), t.out.iter().zip(&base.out).position(|(a, b)| a != b)));
    }
    if t.consumed != base.consumed {
        return Err(format!("{what}: consumed {} input bytes, one-call run consumed {}", t.consumed, base.consumed));
    }
    Ok(())
}

pub fn explore(c: &mut Case, env: &Env, wb: i32, bytes: &[u8], si_all_max: usize, expect_out: usize, sweep_out: bool) -> Result<(), String> {
    let ex = IExtra { probe: true, expect_out, ..Default::default() };
    c.exec();
    let base = run_inflate::<Rs>(wb, bytes, &ISched::one_shot(), env, &ex, Some(c))?;
    c.outcome(base.outcome_hash());
    let n = bytes.len();
    let mut scheds: Vec<ISched> = vec![];
    if n >= 2 && n <= si_all_max {
        for mask in 0..(1u32 << (n - 1)) {
            let mut steps = vec![];
            let mut run = 1;
            for i in 0..n - 1 {
                if mask & (1 << i) != 0 {
                    steps.push(run);
                    run = 1;
                } else {
                    run += 1;
                }
            }
            steps.push(run);
            for room in [1usize, 2, AMPLE] {
                scheds.push(ISched { steps: steps.iter().map(|&k| IStep { n: k, room, flush: Z_NO_FLUSH }).collect(), tail_in: AMPLE, tail_room: if room == AMPLE { AMPLE } else { room }, tail_flush: Z_NO_FLUSH });
            }
        }
    } else if n >= 2 {
        let splits: Vec<usize> = if n <= 300 { (1..n).collect() } else { vec![1, 2, 10, n / 3, n / 2, n - 9, n - 8, n - 5, n - 4, n - 1] };
        for i in splits {
            scheds.push(ISched { steps: vec![IStep { n: i, room: AMPLE, flush: Z_NO_FLUSH }], tail_in: AMPLE, tail_room: AMPLE, tail_flush: Z_NO_FLUSH });
        }
        scheds.push(ISched::uniform(1, AMPLE, Z_NO_FLUSH));
    }
    let big = base.out.len() > 4096;
    let mut rooms: Vec<usize> = if big { vec![3, 257, 258, 259, 260, 261, 32767, 32768, 32769] } else { vec![1, 2, 3, 257, 258, 259, 260, 261] };
    if !big && n > si_all_max {
        rooms.push(5);
    }
    for r in rooms {
        scheds.push(ISched::uniform(AMPLE, r, Z_NO_FLUSH));
    }
    if !big {
        scheds.push(ISched::uniform(1, 1, Z_NO_FLUSH));
    }
    if big {
        // three phases around a window's worth of output: a small first call (the window write position leaves 0), a
        // call that produces a whole window or more, then small calls whose matches reach back across that point
        for a in [1usize, 100, 16384, 32767] {
            for b in [32768usize, 32769, 40000, 65536] {
                for tail in [263usize, 4096] {
                    scheds.push(ISched { steps: vec![IStep { n: AMPLE, room: a, flush: Z_NO_FLUSH }, IStep { n: AMPLE, room: b, flush: Z_NO_FLUSH }], tail_in: AMPLE, tail_room: tail, tail_flush: Z_NO_FLUSH });
                }
            }
        }
    }
    for f in [Z_SYNC_FLUSH, Z_BLOCK, Z_TREES, Z_FINISH] {
        scheds.push(ISched::uniform(AMPLE, AMPLE, f));
        if !big {
            scheds.push(ISched::uniform(1, AMPLE, f));
            scheds.push(ISched::uniform(AMPLE, 2, f));
        }
        if n >= 2 {
            scheds.push(ISched { steps: vec![IStep { n: n / 2, room: AMPLE, flush: f }], tail_in: AMPLE, tail_room: AMPLE, tail_flush: Z_NO_FLUSH });
            scheds.push(ISched { steps: vec![IStep { n: n / 2, room: 1, flush: f }], tail_in: AMPLE, tail_room: 7, tail_flush: Z_NO_FLUSH });
        }
    }
    // every position of the first output-buffer end (then ample room), and every uniform room size: the output-side
    // counterpart of "every single split position" (match copies are cut short by avail_out at every offset, and end
    // at every distance from the end of the room)
    let on = base.out.len();
    if sweep_out && (2..=700).contains(&on) {
        for r in 1..on {
            scheds.push(ISched { steps: vec![IStep { n: AMPLE, room: r, flush: Z_NO_FLUSH }], tail_in: AMPLE, tail_room: AMPLE, tail_flush: Z_NO_FLUSH });
            c.count("output_cut_positions", 1);
        }
        for r in 4..=on.min(300) {
            if ![5, 257, 258, 259, 260, 261].contains(&r) {
                scheds.push(ISched::uniform(AMPLE, r, Z_NO_FLUSH));
            }
        }
    }
    // the same through the safe wrapper (zlib_rs::Inflate): status, output and its own totals under three chunkings
    // must coincide with each other and with the one-call C-API run, also when the stream ends in an error
    if n <= 400 && (wb <= -8 || wb >= 8) {
        let (hdr, wbits) = if wb < 0 { (false, (-wb) as u8) } else { (true, wb as u8) };
        let mut seen: Vec<(String, u64, u64, Vec<u8>)> = vec![];
        for (in_chunk, out_chunk) in [(usize::MAX, 70000usize), (1, 70000), (7, 3)] {
            c.exec();
            let mut inf = zlib_rs::Inflate::new(hdr, wbits);
            let mut out: Vec<u8> = vec![];
            let mut buf = vec![0u8; out_chunk];
            let mut pos = 0usize;
            let mut calls = 0usize;
            let verdict = loop {
                let take = in_chunk.min(n - pos);
                let (ti, to) = (inf.total_in(), inf.total_out());
                let r = inf.decompress(&bytes[pos..pos + take], &mut buf, zlib_rs::InflateFlush::NoFlush);
                calls += 1;
                let din = (inf.total_in() - ti) as usize;
                let dout = (inf.total_out() - to) as usize;
                if din > take || dout > buf.len() {
                    return Err(format!("Inflate::decompress accounts {din} of {take} input bytes, {dout} of {} output bytes", buf.len()));
                }
                out.extend_from_slice(&buf[..dout]);
                pos += din;
                match r {
                    Ok(zlib_rs::Status::StreamEnd) => break "StreamEnd".to_string(),
                    Err(e) => break format!("{e:?}"),
                    Ok(_) => {
                        if din == 0 && dout == 0 && pos == n {
                            break "NeedMore".to_string();
                        }
                    }
                }
                if calls > 40 * (n + 100) + 80000 {
                    return Err("Inflate wrapper does not finish".into());
                }
            };
            seen.push((verdict, inf.total_in(), inf.total_out(), out));
        }
        if seen.iter().any(|x| *x != seen[0]) {
            return Err(format!("zlib_rs::Inflate: verdict / total_in / total_out depend on the chunking: one call {:?}, 1-byte input {:?}, 7-byte input and 3-byte output {:?}", (&seen[0].0, seen[0].1, seen[0].2), (&seen[1].0, seen[1].1, seen[1].2), (&seen[2].0, seen[2].1, seen[2].2)));
        }
        // the wrapper and the C API decode with one decoder
        let c_verdict = match base.fin {
            Fin::StreamEnd => "StreamEnd".to_string(),
            Fin::DataError => "DataError".to_string(),
            Fin::NeedMore => "NeedMore".to_string(),
            Fin::NeedDict(id) => format!("NeedDict {{ dict_id: {id} }}"),
            other => format!("{other:?}"),
        };
        if seen[0].0 != c_verdict || seen[0].3 != base.out || seen[0].1 as usize != base.consumed || seen[0].2 as usize != base.out.len() {
            return Err(format!("zlib_rs::Inflate ends with {} after {} bytes in / {} out, the C API with {c_verdict} after {} in / {} out", seen[0].0, seen[0].1, seen[0].2, base.consumed, base.out.len()));
        }
        c.count("rust_wrapper_schedules", 3);
    }
    for sch in &scheds {
        c.exec();
        let t = run_inflate::<Rs>(wb, bytes, sch, env, &ex, Some(c))?;
        same(&base, &t, &format!("schedule [{}]", sch.desc()))?;
    }
    c.validated();
    Ok(())
}

pub fn run(ctx: &mut Ctx) {
    let quick = ctx.quick();
    let env = Env::new();
    let corp = zfam::corpus(quick);
    let si_all = if quick { 9 } else { 12 };
    zfam::for_each(ctx, &corp, quick, false, |ctx, it| {
        if quick && it.mut_idx % 5 != 0 {
            return;
        }
        let expect = it.gen.expected.as_ref().map_or(70000, |e| e.len());
        ctx.case(
            "chunking",
            || it.desc(),
            |c| {
                if it.mut_idx != 0 {
                    c.nontrivial();
                }
                explore(c, &env, it.wb, it.bytes, si_all, expect, it.mut_idx == 0)
            },
        );
    });
    // dictionary states (DictId / Dict resume): a zlib stream with FDICT
    let dict = b"hello hello dictionary".to_vec();
    let data = b"hello dictionary hello".to_vec();
    let cfg = crate::inputs::DCfg { level: 6, strategy: 0, wbits: 15, mem_level: 8, wrap: crate::inputs::Wrap::Zlib };
    let z = run_deflate::<Ng>(&cfg, &data, &DSched::one_shot(), &env, &DExtra { dict: Some(&dict), ..Default::default() }, None).expect("reference deflate").out;
    for cut in 0..=z.len() {
        let bytes = z[..cut].to_vec();
        ctx.case(
            "chunking-fdict",
            || format!("zlib stream with FDICT truncated at {cut}: {}", hex(&bytes)),
            |c| explore(c, &env, 15, &bytes, 9, 64, cut == z.len()),
        );
    }
}
