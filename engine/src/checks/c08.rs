//! C08 — stream end is reported only after the checksum and length trailer verified.

use crate::api::*;
use crate::drv::*;
use crate::engine::*;
use crate::inputs::*;
use crate::refs::cksum;
use crate::refs::wrap as r3;
use crate::refs::wrap::GzFields;
use crate::zfam;
use crate::zgen::*;

pub const INFO: CheckInfo = CheckInfo {
    prop: "C08",
    level: "model_checking",
    rule: "valid zlib / gzip(+FHCRC) streams (R4 corpus in R3 wrappers; encoder-produced streams with 0 B .. 100 KB of output so that per-call output exceeds the 32 KiB window, wraps and splits) x {intact, ALL 255 alternative values of each of the last 12 bytes and of each header byte, every single-bit flip elsewhere (lattice on long streams)} x schedules {one call, 1-byte input, 1-byte output, output room 32767/32768/32769, trailer delivered in a separate call} x windowBits {zlib/gzip/auto}. Oracle (independent of the decoder model): whenever inflate returns Z_STREAM_END, the trailer just consumed equals the Adler-32 / CRC-32 + length (R1) of the bytes actually output in this execution, and a gzip header with FHCRC has a correct CRC-16. Histories: every sequence of <= 3 (4) operations over {three inflate call shapes, inflateSync, inflateValidate(0/1), inflateReset, inflateReset2} on 5 data sets, then inflateReset / inflateReset2 and the stream again with each trailer byte damaged: with checking enabled according to a one-flag model (cleared only by inflateValidate(0) or a successful inflateSync, restored by inflateReset2) a wrong trailer must be rejected. distinct_nontrivial = distinct (verdict, output hash, consumed) outcomes; the number of accepted corrupted streams is reported (must be 0 unless the corruption is checksum-neutral). Family four-gib-member: a gzip member of 2^32 + 5 zero bytes (built bit by bit) decoded into a reused 1 MiB room: accepted with ISIZE 5, rejected with ISIZE 4 / 6 or a wrong CRC; total_out counts past 2^32.",
    assumptions: &["R1 is the checksum definition", "checksum collisions are not excluded by the property; none can occur for single-byte faults of a CRC-32/Adler-32 protected stream of these sizes except in fields the format ignores (MTIME, XFL, OS, name bytes without FHCRC)"],
    bound_quick: "corpus streams <= 300 bytes: all faults; 4 long streams: header/trailer all values + flips on a sparse lattice",
    bound_thorough: "denser lattice on long streams (stride 331 bits), 8 long streams",
};

fn check_end(kind: WrapKind, bytes: &[u8], t: &ITrace) -> Result<(), String> {
    if t.fin != Fin::StreamEnd {
        return Ok(());
    }
    match kind {
        WrapKind::Zlib => {
            if t.consumed < 6 {
                return Err(format!("Z_STREAM_END after only {} bytes of a zlib stream", t.consumed));
            }
            let tr = &bytes[t.consumed - 4..t.consumed];
            let want = cksum::adler32(1, &t.out).to_be_bytes();
            if tr != want {
                return Err(format!("Z_STREAM_END but the consumed trailer {} is not the Adler-32 {} of the {} bytes output", hex(tr), hex(&want), t.out.len()));
            }
        }
        WrapKind::Gzip => {
            if t.consumed < 18 {
                return Err(format!("Z_STREAM_END after only {} bytes of a gzip stream", t.consumed));
            }
            let tr = &bytes[t.consumed - 8..t.consumed];
            let mut want = cksum::crc32(0, &t.out).to_le_bytes().to_vec();
            want.extend_from_slice(&(t.out.len() as u32).to_le_bytes());
            if tr != &want[..] {
                return Err(format!("Z_STREAM_END but the consumed trailer {} is not CRC-32/ISIZE {} of the {} bytes output", hex(tr), hex(&want), t.out.len()));
            }
            match r3::parse_gzip_header(&bytes[..t.consumed]) {
                Ok(_) => {}
                Err(e) => return Err(format!("Z_STREAM_END on a gzip stream whose header the reference rejects: {e:?}")),
            }
        }
        WrapKind::Raw => {}
    }
    Ok(())
}

struct Target {
    name: String,
    kind: WrapKind,
    bytes: Vec<u8>,
    header_len: usize,
    out_len: usize,
}

fn targets(quick: bool) -> Vec<Target> {
    let mut v = vec![];
    let corp = zfam::corpus(true);
    for g in &corp.gens {
        let Some(data) = &g.expected else { continue };
        if g.raw.len() > 300 {
            continue;
        }
        // of the position sweeps only every 16th member (the trailer logic does not depend on the position)
        if g.light && hash_bytes(g.name.as_bytes()) % 16 != 0 {
            continue;
        }
        // keep the corpus part moderate: every 7th program plus all non-program streams
        if g.name.contains("prog#") && !g.name.contains("prog#1 ") && hash_bytes(g.name.as_bytes()) % 7 != 0 {
            continue;
        }
        for (kind, variant) in [(WrapKind::Zlib, 0), (WrapKind::Gzip, 0), (WrapKind::Gzip, 1), (WrapKind::Gzip, 2)] {
            let b = wrap_stream(&g.raw, data, kind, variant);
            let hl = if kind == WrapKind::Zlib { 2 } else { b.len() - g.raw.len() - 8 };
            v.push(Target { name: format!("{} {:?}#{variant}", g.name, kind), kind, header_len: hl, out_len: data.len(), bytes: b });
        }
    }
    // encoder-produced long streams
    let env = Env::new();
    let mut longs: Vec<(String, Vec<u8>, i32)> = vec![("text(100000) L6".into(), text(17, 100_000), 6), ("lcg(70000) L0".into(), lcg_bytes(3, 70_000), 0), ("rep(0,98321) L9".into(), rep(0, 98321), 9), ("mix L1".into(), { let mut m = text(2, 40_000); m.extend(lcg_bytes(9, 30_000)); m }, 1)];
    if !quick {
        longs.push(("periodic(258,131073) L4".into(), periodic(258, 131_073), 4));
        longs.push(("text(200000) L2".into(), text(5, 200_000), 2));
    }
    for (name, data, level) in longs {
        for wrap in [Wrap::Zlib, Wrap::Gzip] {
            let cfg = DCfg { level, strategy: 0, wbits: 15, mem_level: 8, wrap };
            let gz = r3::GzFields { hcrc: true, name: Some(b"file".to_vec()), os: 3, ..Default::default() };
            let ex = DExtra { gz: if wrap == Wrap::Gzip { Some(&gz) } else { None }, ..Default::default() };
            let out = run_deflate::<Ng>(&cfg, &data, &DSched::one_shot(), &env, &ex, None).expect("reference deflate").out;
            let (kind, hl) = if wrap == Wrap::Zlib { (WrapKind::Zlib, 2) } else { (WrapKind::Gzip, gz.write().len()) };
            v.push(Target { name: format!("enc {name} {kind:?}"), kind, header_len: hl, out_len: data.len(), bytes: out });
        }
    }
    v
}

/// Histories that may or may not switch checksum verification off, then a recycled decoder is given a stream with
/// a wrong trailer. A model of the one flag involved - on initially and after inflateReset2, set by inflateValidate,
/// cleared by a SUCCESSFUL inflateSync, kept by inflateReset (finding F6) - says whether checking is enabled; with
/// checking enabled a wrong trailer must never be accepted.
fn histories(ctx: &mut Ctx) {
    use crate::machine::*;
    #[derive(Clone, Copy, Debug)]
    enum H {
        Op(MOp),
        Reset,
        Reset2,
    }
    let quick = ctx.quick();
    let menv = MEnv::new();
    let sets = crate::checks::c14::idata();
    let alpha = [
        H::Op(MOp::Call { flush: Z_NO_FLUSH, inn: 10, room: 1 }),
        H::Op(MOp::Call { flush: Z_BLOCK, inn: usize::MAX, room: AMPLE }),
        H::Op(MOp::Call { flush: Z_NO_FLUSH, inn: usize::MAX, room: AMPLE }),
        H::Op(MOp::Sync),
        H::Op(MOp::Validate(0)),
        H::Op(MOp::Validate(1)),
        H::Reset,
        H::Reset2,
    ];
    for ds in sets.iter().filter(|d| d.wb > 0 && d.name != "zlib-long-far-matches") {
        let gzip = ds.wb & 16 != 0 && ds.wb < 32;
        // the stream the recycled decoder is given: the data set's own (valid) stream, with each trailer byte damaged
        let tl = if gzip { 8 } else { 4 };
        let n = ds.bytes.len();
        if ds.name.starts_with("corrupt") {
            continue;
        }
        let mut probes: Vec<(String, Vec<u8>)> = vec![("intact".into(), ds.bytes.clone())];
        for k in 1..=tl {
            let mut b = ds.bytes.clone();
            b[n - k] ^= 0x5a;
            probes.push((format!("trailer byte -{k} damaged"), b));
        }
        crate::optree::sequences(&alpha, if quick { 3 } else { 4 }, |hist| {
            for final_reset2 in [false, true] {
                ctx.case(
                    "history-then-wrong-trailer",
                    || format!("data={} inflateInit2({}) ; history {hist:?} ; {} ; then the stream again, intact and with each of its {tl} trailer bytes damaged", ds.name, ds.wb, if final_reset2 { "inflateReset2" } else { "inflateReset" }),
                    |c| unsafe {
                        let mut h = 0u64;
                        for (pn, probe) in &probes {
                            c.exec();
                            let mut a = IMachine::init::<Rs>(ds.wb, &ds.bytes, Strm::filled(0x3c)).map_err(|r| format!("init {r}"))?;
                            let mut check_on = true;
                            let mut synced = false;
                            for op in hist {
                                match op {
                                    H::Op(m) => {
                                        let o = a.step::<Rs>(*m, &menv);
                                        match m {
                                            MOp::Validate(v) if o.ret == Z_OK => check_on = *v != 0,
                                            MOp::Sync if o.ret == Z_OK => {
                                                check_on = false;
                                                synced = true;
                                            }
                                            _ => {}
                                        }
                                    }
                                    H::Reset => {
                                        a.reset::<Rs>(None);
                                    }
                                    H::Reset2 => {
                                        if a.reset::<Rs>(Some(ds.wb)) == Z_OK {
                                            check_on = true;
                                            synced = false;
                                        }
                                    }
                                }
                            }
                            let r = if final_reset2 { a.reset::<Rs>(Some(ds.wb)) } else { a.reset::<Rs>(None) };
                            if r != Z_OK {
                                a.end::<Rs>();
                                return Err(format!("reset returned {}", rc_name(r)));
                            }
                            if final_reset2 {
                                check_on = true;
                                synced = false;
                            }
                            a.data = &*(probe.as_slice() as *const [u8]);
                            let o = a.step::<Rs>(MOp::Call { flush: Z_NO_FLUSH, inn: usize::MAX, room: AMPLE }, &menv);
                            a.data = &ds.bytes;
                            a.end::<Rs>();
                            h = mix(h, mix(o.ret as u64, o.out_hash));
                            let damaged = pn != "intact";
                            if damaged && o.ret == Z_STREAM_END {
                                if check_on {
                                    return Err(format!("{pn}: accepted with Z_STREAM_END although checksum verification is enabled (never switched off by inflateValidate(0) or a successful inflateSync since the last inflateReset2/init)"));
                                }
                                c.count(if synced { "wrong_trailer_accepted_checks_off_after_successful_sync_F6" } else { "wrong_trailer_accepted_checks_off_by_inflateValidate" }, 1);
                            }
                            if !damaged && o.ret != Z_STREAM_END && !synced {
                                return Err(format!("the intact stream is not accepted by the recycled decoder: {}", rc_name(o.ret)));
                            }
                        }
                        c.outcome(h);
                        c.nontrivial();
                        c.validated();
                        Ok(())
                    },
                );
            }
        });
    }
}

/// gzip headers with FHCRC and long fields (the header CRC is continued over >= 64-byte pieces from a non-initial
/// value) with the input placed at each of the 64 addresses modulo 64: the intact member must be accepted and every
/// other value of the two stored CRC bytes refused, whatever the alignment and whether the header comes in one
/// call or field by field
fn header_crc_alignments(ctx: &mut Ctx) {
    let body = text(3, 50);
    let shapes: Vec<(&str, GzFields)> = vec![
        ("name(100)", GzFields { os: 3, mtime: 0xfedc_ba98, name: Some((0..100).map(|i| b'a' + (i % 26) as u8).collect()), hcrc: true, ..Default::default() }),
        ("extra(200)", GzFields { os: 3, mtime: 0x8000_0001, extra: Some(lcg_bytes(5, 200)), hcrc: true, ..Default::default() }),
        ("extra(70)+name(65)+comment(300)", GzFields { text: true, os: 255, mtime: 0xffff_ffff, extra: Some(lcg_bytes(6, 70)), name: Some(vec![b'n'; 65]), comment: Some((0..300).map(|i| b'A' + (i % 50) as u8).collect()), hcrc: true, ..Default::default() }),
    ];
    for (sname, gz) in &shapes {
        let denv = Env::new();
        let cfg = DCfg { level: 6, strategy: 0, wbits: 15, mem_level: 8, wrap: Wrap::Gzip };
        let z = run_deflate::<Ng>(&cfg, &body, &DSched::one_shot(), &denv, &DExtra { gz: Some(gz), ..Default::default() }, None).expect("reference deflate").out;
        let hl = gz.write().len();
        for mis in 0..64usize {
            ctx.case(
                "header-crc-alignment",
                || format!("gzip member with FHCRC and {sname} ({} bytes, header {hl}) with the input at address = {mis} mod 64: intact, and the stored header CRC replaced by other values", z.len()),
                |c| {
                    let mut env = Env::new();
                    env.at_end = false;
                    env.misalign = mis;
                    let ex = IExtra { expect_out: body.len(), ..Default::default() };
                    for sch in [ISched::one_shot(), ISched { steps: vec![IStep { n: 10, room: AMPLE, flush: Z_NO_FLUSH }], tail_in: AMPLE, tail_room: AMPLE, tail_flush: Z_NO_FLUSH }] {
                        c.exec();
                        let t = run_inflate::<Rs>(31, &z, &sch, &env, &ex, None)?;
                        if t.fin != Fin::StreamEnd || t.out != body {
                            return Err(format!("the intact member is not accepted: {:?} after {} bytes (schedule [{}])", t.fin, t.consumed, sch.desc()));
                        }
                        // every other low byte, and every other high byte, of the stored header CRC
                        for pos in [hl - 2, hl - 1] {
                            for x in 0..=255u8 {
                                if x == z[pos] {
                                    continue;
                                }
                                let mut b = z.clone();
                                b[pos] = x;
                                c.exec();
                                let t = run_inflate::<Rs>(31, &b, &sch, &env, &ex, None)?;
                                if t.fin == Fin::StreamEnd {
                                    return Err(format!("Z_STREAM_END although the stored header CRC byte at {pos} is {x:#04x} instead of {:#04x} (schedule [{}])", z[pos], sch.desc()));
                                }
                            }
                        }
                    }
                    c.outcome(mis as u64);
                    c.nontrivial();
                    c.validated();
                    Ok(())
                },
            );
        }
    }
}

/// gzip members whose length passes 2^32: the trailer's ISIZE is the length modulo 2^32 (RFC 1952). One member of
/// 2^32 + 5 zero bytes (a literal, 20 more literals and 16 647 160 two-bit matches of length 258, built bit by bit: about
/// 4 MiB of input), decoded into a 1 MiB room that is reused: accepted with the right ISIZE (5), rejected with ISIZE 4, 6,
/// and with the non-reduced length's low word changed; total_out counts past 2^32.
fn four_gib_members(ctx: &mut Ctx) {
    for (what, isize_delta, crc_flip, want) in [("right ISIZE", 0i64, 0u32, Z_STREAM_END), ("ISIZE one too small", -1, 0, Z_DATA_ERROR), ("ISIZE one too large", 1, 0, Z_DATA_ERROR), ("wrong CRC", 0, 1 << 9, Z_DATA_ERROR)] {
        ctx.case(
            "four-gib-member",
            || format!("gzip member of 2^32 + 5 zero bytes, {what}, inflate(31) with the whole input and a 1 MiB room per call"),
            |c| unsafe {
                use crate::refs::builder::{canonical, emit_dynamic_header, BitW, Rle};
                let total: u64 = (1u64 << 32) + 5;
                let mut ll = vec![0u8; 286];
                ll[0] = 2;
                ll[256] = 2;
                ll[285] = 1;
                let codes = canonical(&ll);
                let mut w = BitW::default();
                w.put(1, 1);
                w.put(2, 2);
                emit_dynamic_header(&mut w, &ll, &[1], Rle::Greedy, true);
                let matches = (total - 21) / 258;
                assert_eq!(21 + matches * 258, total);
                for _ in 0..21 {
                    w.put_code(codes[0], 2);
                }
                for _ in 0..matches {
                    w.put_code(codes[285], 1);
                    w.put_code(0, 1); // distance code 0 (distance 1), the only one
                }
                w.put_code(codes[256], 2);
                let raw = w.finish();
                // CRC-32 of the data from the reference implementation
                let zeros = vec![0u8; 1 << 20];
                let mut crc = Ng::crc32(0, std::ptr::null(), 0);
                let mut left = total;
                while left > 0 {
                    let n = left.min(1 << 20) as u32;
                    crc = Ng::crc32(crc, zeros.as_ptr(), n);
                    left -= n as u64;
                }
                let mut gz = vec![0x1f, 0x8b, 8, 0, 0, 0, 0, 0, 0, 3];
                gz.extend_from_slice(&raw);
                gz.extend_from_slice(&((crc as u32) ^ crc_flip).to_le_bytes());
                gz.extend_from_slice(&(((total as i64 + isize_delta) as u64) as u32).to_le_bytes());
                c.exec();
                let mut st = Strm::plain();
                if Rs::inflateInit2_(st.p(), 31, Rs::zlibVersion(), STREAM_SIZE) != Z_OK {
                    return Err("init".into());
                }
                let mut room = vec![0xA5u8; 1 << 20];
                st.z.next_in = gz.as_ptr() as *mut u8;
                st.z.avail_in = gz.len() as u32;
                let mut ret;
                let mut calls = 0u64;
                let mut nonzero = false;
                loop {
                    st.z.next_out = room.as_mut_ptr();
                    st.z.avail_out = room.len() as u32;
                    ret = Rs::inflate(st.p(), Z_NO_FLUSH);
                    calls += 1;
                    let made = room.len() - st.z.avail_out as usize;
                    if calls % 512 == 1 {
                        nonzero |= room[..made].iter().any(|&b| b != 0);
                        crate::engine::heartbeat();
                    }
                    if ret != Z_OK || calls > 5000 {
                        break;
                    }
                }
                let (tin, tout) = (st.z.total_in as u64, st.z.total_out as u64);
                Rs::inflateEnd(st.p());
                if ret != want {
                    return Err(format!("inflate ended with {} after {tout} bytes out ({calls} calls), expected {}", rc_name(ret), rc_name(want)));
                }
                if nonzero {
                    return Err("decoded bytes are not all zero".into());
                }
                if want == Z_STREAM_END && (tout != total || tin != gz.len() as u64) {
                    return Err(format!("total_out {tout} (data {total}), total_in {tin} (stream {})", gz.len()));
                }
                c.outcome(ret as u64 ^ tout);
                c.nontrivial();
                c.validated();
                Ok(())
            },
        );
    }
}

pub fn run(ctx: &mut Ctx) {
    histories(ctx);
    header_crc_alignments(ctx);
    four_gib_members(ctx);
    let quick = ctx.quick();
    let env = Env::new();
    let tg = targets(quick);
    for t in &tg {
        let len = t.bytes.len();
        let long = len > 300;
        // mutation list
        let mut muts: Vec<Mutation> = vec![Mutation::None];
        let mut crit: Vec<usize> = (0..t.header_len.min(len)).collect();
        crit.extend(len.saturating_sub(12)..len);
        crit.sort();
        crit.dedup();
        for &i in &crit {
            for x in 0..=255u8 {
                if x != t.bytes[i] {
                    muts.push(Mutation::ByteSub(i, x));
                }
            }
        }
        let body: Vec<usize> = if long {
            let stride = if quick { 2999 } else { 331 };
            (t.header_len * 8..(len - 12) * 8).step_by(stride).collect()
        } else {
            (t.header_len * 8..len.saturating_sub(12) * 8).collect()
        };
        for b in body {
            muts.push(Mutation::BitFlip(b));
        }
        let wbs: Vec<i32> = if t.kind == WrapKind::Zlib { vec![15, 47] } else { vec![31, 47] };
        for (mi, m) in muts.iter().enumerate() {
            let wb = wbs[mi % wbs.len()];
            ctx.case(
                if long { "trailer-long" } else { "trailer" },
                || format!("stream[{}] ({} bytes, {} out) mutation={} windowBits={wb}", t.name, len, t.out_len, m.desc()),
                |c| {
                    let bytes = m.apply(&t.bytes);
                    let mut scheds = vec![ISched::one_shot(), ISched { steps: vec![IStep { n: len - if t.kind == WrapKind::Zlib { 4 } else { 8 }, room: AMPLE, flush: Z_NO_FLUSH }], tail_in: AMPLE, tail_room: AMPLE, tail_flush: Z_NO_FLUSH }];
                    // Z_FINISH calls that receive all the data but only part of the trailer, the rest in a later call
                    let tl = if t.kind == WrapKind::Zlib { 4 } else { 8 };
                    for k in [1usize, 2, 3, tl - 1, tl] {
                        if !long || mi % 8 == 0 {
                            scheds.push(ISched { steps: vec![IStep { n: len - k, room: AMPLE, flush: Z_FINISH }], tail_in: AMPLE, tail_room: AMPLE, tail_flush: Z_FINISH });
                        }
                    }
                    if long {
                        // the full schedule set on the intact stream and on trailer faults; one-shot elsewhere
                        if mi == 0 || matches!(m, Mutation::ByteSub(i, _) if *i + 12 >= len && mi % 16 == 1) {
                            for r in [32767usize, 32768, 32769] {
                                scheds.push(ISched::uniform(AMPLE, r, Z_NO_FLUSH));
                            }
                            scheds.push(ISched::uniform(4096, AMPLE, Z_NO_FLUSH));
                        }
                    } else {
                        scheds.push(ISched::uniform(1, AMPLE, Z_NO_FLUSH));
                        scheds.push(ISched::uniform(AMPLE, 1, Z_NO_FLUSH));
                        scheds.push(ISched::uniform(AMPLE, AMPLE, Z_FINISH));
                    }
                    let ex = IExtra { expect_out: t.out_len, probe: !long, ..Default::default() };
                    for s in &scheds {
                        c.exec();
                        let tr = run_inflate::<Rs>(wb, &bytes, s, &env, &ex, Some(c))?;
                        check_end(t.kind, &bytes, &tr).map_err(|e| format!("{e} (schedule [{}])", s.desc()))?;
                        c.outcome(tr.outcome_hash());
                        if mi != 0 && tr.fin == Fin::StreamEnd {
                            c.count("corrupted_but_accepted_checksum_neutral", 1);
                        }
                        if mi == 0 && tr.fin != Fin::StreamEnd {
                            return Err(format!("intact valid stream not accepted: {:?} (schedule [{}])", tr.fin, s.desc()));
                        }
                    }
                    if mi != 0 {
                        c.nontrivial();
                    }
                    c.validated();
                    Ok(())
                },
            );
        }
    }
}
