//! C13 — preset dictionaries: announced, demanded, verified, round-trip; Get-dictionary returns the
//! most recent history (R7: dict ‖ consumed input / dict ‖ produced output).

use crate::api::*;
use crate::checks::c05;
use crate::checks::c12::first_diff;
use crate::drv::*;
use crate::engine::*;
use crate::hfam;
use crate::inputs::*;
use crate::refs::cksum;

pub const INFO: CheckInfo = CheckInfo {
    prop: "C13",
    level: "model_checking",
    rule: "bounded exhaustive enumeration of (dictionary length lattice around 0, MIN_MATCH, window-262, window, 2*window, 3*window) x windowBits x level x memLevel x wrapper {raw, zlib} x input {related to the dictionary tail, unrelated} x schedule {one call, sync flush at n/2, small rooms}; plus raw streams with a second dictionary installed between blocks. For every history: deflateGetDictionary / inflateGetDictionary after EVERY call are compared with the history model R7; the zlib header must carry FDICT and DICTID = Adler-32(dict) (R1); inflate must answer NEED_DICT with that id, accept exactly the right dictionary, reject a modified one with DATA_ERROR, refuse a dictionary offered too early, and then round-trip; the stream is also decoded by the strict reference decoder with the dictionary as history. distinct_nontrivial = distinct (compressed bytes, dictionary lengths returned) outcomes. The decoding side runs with windowBits 15, with the window the stream was written with and (zlib) with 0.",
    assumptions: &["R7 (history = dict ‖ data) and R1/R2/R3 are trusted", "deflateGetDictionary may legally return up to 262 bytes less than a full window right after a slide (zlib documents 258); the oracle demands a suffix of the history of length in [min(|history|, window-262), window]"],
    bound_quick: "windowBits {9,15}, 16/5 dictionary lengths, 6 levels, memLevel {1,8}, 2 wrappers, 2 inputs, 3 schedules",
    bound_thorough: "windowBits 9..15, 16 dictionary lengths, 10 levels, memLevel {1,2,8,9}, 2 wrappers, 2 inputs, 3 schedules; Rust API: 3 windows x 7 dictionary lengths x 10 levels x 2 wrappers",
};

struct Hist {
    data: Vec<u8>,
}

/// deflateGetDictionary against R7
unsafe fn check_deflate_getdict(s: &mut Strm, hist: &Hist, w: usize, env: &Env, when: &str) -> Result<u32, String> {
    let mut len: u32 = 0xdead;
    let buf = env.aux.at_end(32768);
    std::ptr::write_bytes(buf, 0xEE, 32768);
    let r = Rs::deflateGetDictionary(s.p(), buf, &mut len);
    if r != Z_OK {
        return Err(format!("deflateGetDictionary {when} returned {}", rc_name(r)));
    }
    let len_us = len as usize;
    if len_us > w {
        return Err(format!("deflateGetDictionary {when} returned {len_us} bytes, more than the window {w}"));
    }
    let h = &hist.data;
    let min_len = h.len().min(w - 262);
    if len_us < min_len || len_us > h.len() {
        return Err(format!("deflateGetDictionary {when} returned {len_us} bytes; history has {} bytes, window {w}: expected between {min_len} and {}", h.len(), h.len().min(w)));
    }
    let got = std::slice::from_raw_parts(buf, len_us);
    if got != &h[h.len() - len_us..] {
        let k = got.iter().zip(&h[h.len() - len_us..]).position(|(a, b)| a != b).unwrap();
        return Err(format!("deflateGetDictionary {when}: returned bytes are not the most recent history (first difference at offset {k} of {len_us})"));
    }
    // NULL buffer form must report the same length
    let mut len2: u32 = 0;
    let r = Rs::deflateGetDictionary(s.p(), std::ptr::null_mut(), &mut len2);
    if r != Z_OK || len2 != len {
        return Err(format!("deflateGetDictionary(NULL buffer) {when}: rc {r}, length {len2} vs {len}"));
    }
    Ok(len)
}

unsafe fn check_inflate_getdict(s: &mut Strm, hist: &Hist, env: &Env, when: &str) -> Result<u32, String> {
    let mut len: u32 = 0xdead;
    let buf = env.aux.at_end(32768);
    let r = Rs::inflateGetDictionary(s.p(), buf, &mut len);
    if r != Z_OK {
        return Err(format!("inflateGetDictionary {when} returned {}", rc_name(r)));
    }
    let h = &hist.data;
    let want = h.len().min(32768);
    if len as usize != want {
        return Err(format!("inflateGetDictionary {when} returned {len} bytes; history (dictionary + output) has {} bytes: expected {want}", h.len()));
    }
    let got = std::slice::from_raw_parts(buf, want);
    if got != &h[h.len() - want..] {
        let k = got.iter().zip(&h[h.len() - want..]).position(|(a, b)| a != b).unwrap();
        return Err(format!("inflateGetDictionary {when}: bytes are not the most recent history (first difference at offset {k} of {want})"));
    }
    Ok(len)
}

/// compress `input` with `dict` following `sched`, probing deflateGetDictionary after every call
fn deflate_with_dict(c: &mut Case, row: &hfam::DictRow, env: &Env) -> Result<Vec<u8>, String> {
    unsafe {
        let cfg = &row.cfg;
        let w = cfg.w_size();
        let mut s = Strm::guarded(0xA5);
        let r = deflate_init::<Rs>(&mut s, cfg);
        if r != Z_OK {
            return Err(format!("deflateInit2 returned {}", rc_name(r)));
        }
        let mut hist = Hist { data: vec![] };
        check_deflate_getdict(&mut s, &hist, w, env, "on a fresh stream")?;
        let dp = env.ain.put(&row.dict.data, true);
        let r = Rs::deflateSetDictionary(s.p(), dp, row.dict.data.len() as u32);
        if r != Z_OK {
            Rs::deflateEnd(s.p());
            return Err(format!("deflateSetDictionary({} bytes) returned {}", row.dict.data.len(), rc_name(r)));
        }
        if cfg.wrap == Wrap::Zlib {
            let want = cksum::adler32(1, &row.dict.data);
            if s.z.adler as u32 != want {
                Rs::deflateEnd(s.p());
                return Err(format!("after deflateSetDictionary strm.adler = {:#x}, Adler-32 of the dictionary = {want:#x}", s.z.adler));
            }
        }
        hist.data.extend_from_slice(&row.dict.data);
        check_deflate_getdict(&mut s, &hist, w, env, "right after deflateSetDictionary")?;
        let input = &row.input.data;
        let mut out = vec![];
        let mut pos = 0usize;
        let ample = input.len() * 2 + 4096;
        let mut steps: Vec<(usize, usize, i32)> = row
            .sched
            .steps
            .iter()
            .map(|st| match st {
                DStep::Feed { n, room, flush } => (*n, *room, *flush),
                _ => (0, AMPLE, 0),
            })
            .collect();
        steps.push((usize::MAX, row.sched.tail_room, Z_FINISH));
        let mut given = 0usize;
        let mut ncalls = 0;
        'outer: for (n, room, flush) in steps {
            given = if n == usize::MAX { input.len() } else { (given + n).min(input.len()) };
            loop {
                let room_n = if room == AMPLE { ample } else { room.max(if ncalls > 0 && flush != Z_FINISH { 16 } else { 1 }) };
                let chunk = &input[pos..given];
                let pin = env.ain.put(chunk, true);
                let pout = env.aout.at_end(room_n);
                s.z.next_in = pin;
                s.z.avail_in = chunk.len() as u32;
                s.z.next_out = pout;
                s.z.avail_out = room_n as u32;
                let ret = Rs::deflate(s.p(), flush);
                ncalls += 1;
                c.exec();
                let din = chunk.len() - s.z.avail_in as usize;
                let dout = room_n - s.z.avail_out as usize;
                out.extend_from_slice(std::slice::from_raw_parts(pout, dout));
                hist.data.extend_from_slice(&chunk[..din]);
                pos += din;
                if !matches!(ret, Z_OK | Z_STREAM_END | Z_BUF_ERROR) {
                    Rs::deflateEnd(s.p());
                    return Err(format!("deflate returned {}", rc_name(ret)));
                }
                check_deflate_getdict(&mut s, &hist, w, env, &format!("after deflate call {ncalls} (flush {flush}, {} bytes consumed in total)", pos))?;
                if ret == Z_STREAM_END {
                    break 'outer;
                }
                if flush == Z_NO_FLUSH || (flush != Z_FINISH && s.z.avail_out != 0) {
                    break;
                }
                if ncalls > 200_000 {
                    Rs::deflateEnd(s.p());
                    return Err("non-termination in deflate with dictionary".into());
                }
            }
        }
        let want_total = (row.dict.data.len().min(w) + input.len()) as u64;
        let alt_total = (row.dict.data.len() + input.len()) as u64;
        if s.z.total_in as u64 != want_total && s.z.total_in as u64 != alt_total {
            Rs::deflateEnd(s.p());
            return Err(format!("total_in {} after compressing {} input bytes with a {}-byte dictionary (window {w})", s.z.total_in, input.len(), row.dict.data.len()));
        }
        let r = Rs::deflateEnd(s.p());
        if r != Z_OK {
            return Err(format!("deflateEnd returned {}", rc_name(r)));
        }
        Ok(out)
    }
}

fn inflate_with_dict(c: &mut Case, row: &hfam::DictRow, stream: &[u8], env: &Env, in_chunk: usize, room: usize, wbits_arg: i32) -> Result<(), String> {
    unsafe {
        let cfg = &row.cfg;
        let dict = &row.dict.data;
        let input = &row.input.data;
        // (the decoder's windowBits argument: 15, the window the stream was written with, or - zlib - 0 = "as the header says")
        let wb = if wbits_arg == 0 { 0 } else { wb_for(cfg.wrap, wbits_arg) };
        let mut s = Strm::guarded(0x5A);
        let r = Rs::inflateInit2_(s.p(), wb, Rs::zlibVersion(), STREAM_SIZE);
        if r != Z_OK {
            return Err(format!("inflateInit2 returned {}", rc_name(r)));
        }
        let mut hist = Hist { data: vec![] };
        check_inflate_getdict(&mut s, &hist, env, "on a fresh stream")?;
        let has_fdict = cfg.wrap == Wrap::Zlib && !dict.is_empty();
        let mut dict_set = false;
        if cfg.wrap == Wrap::Raw {
            let dp = env.aux.put(dict, true);
            let r = Rs::inflateSetDictionary(s.p(), dp, dict.len() as u32);
            if r != Z_OK {
                Rs::inflateEnd(s.p());
                return Err(format!("inflateSetDictionary on a raw stream returned {}", rc_name(r)));
            }
            hist.data.extend_from_slice(dict);
            dict_set = true;
            check_inflate_getdict(&mut s, &hist, env, "after inflateSetDictionary (raw)")?;
        } else if has_fdict {
            // offered too early: must be refused and must not disturb the stream
            let dp = env.aux.put(dict, true);
            let r = Rs::inflateSetDictionary(s.p(), dp, dict.len() as u32);
            if r != Z_STREAM_ERROR {
                Rs::inflateEnd(s.p());
                return Err(format!("inflateSetDictionary before Z_NEED_DICT on a zlib stream returned {} (zlib: Z_STREAM_ERROR)", rc_name(r)));
            }
        }
        let mut out = vec![];
        let mut pos = 0usize;
        let mut ncalls = 0;
        loop {
            let take = if in_chunk == AMPLE { stream.len() - pos } else { in_chunk.min(stream.len() - pos) };
            let room_n = if room == AMPLE { input.len() + 1024 } else { room };
            let pin = env.ain.put(&stream[pos..pos + take], true);
            let pout = env.aout.at_end(room_n);
            s.z.next_in = pin;
            s.z.avail_in = take as u32;
            s.z.next_out = pout;
            s.z.avail_out = room_n as u32;
            let ret = Rs::inflate(s.p(), Z_NO_FLUSH);
            ncalls += 1;
            c.exec();
            let din = take - s.z.avail_in as usize;
            let dout = room_n - s.z.avail_out as usize;
            pos += din;
            out.extend_from_slice(std::slice::from_raw_parts(pout, dout));
            hist.data.extend_from_slice(std::slice::from_raw_parts(pout, dout));
            match ret {
                Z_NEED_DICT => {
                    if !has_fdict || dict_set {
                        Rs::inflateEnd(s.p());
                        return Err("unexpected Z_NEED_DICT".into());
                    }
                    let want = cksum::adler32(1, dict);
                    if s.z.adler as u32 != want {
                        Rs::inflateEnd(s.p());
                        return Err(format!("Z_NEED_DICT reports id {:#x}, Adler-32 of the dictionary is {want:#x}", s.z.adler));
                    }
                    // a wrong dictionary (one byte changed, and a truncated one) must be rejected
                    let mut wrong = dict.clone();
                    let k = wrong.len() / 2;
                    wrong[k] ^= 0x01;
                    let wp = env.aux.put(&wrong, true);
                    let r = Rs::inflateSetDictionary(s.p(), wp, wrong.len() as u32);
                    if r != Z_DATA_ERROR {
                        Rs::inflateEnd(s.p());
                        return Err(format!("inflateSetDictionary accepted/answered {} for a dictionary with one byte changed (must be Z_DATA_ERROR)", rc_name(r)));
                    }
                    if dict.len() > 1 {
                        let wp = env.aux.put(&dict[1..], true);
                        let r = Rs::inflateSetDictionary(s.p(), wp, (dict.len() - 1) as u32);
                        if r != Z_DATA_ERROR {
                            Rs::inflateEnd(s.p());
                            return Err(format!("inflateSetDictionary answered {} for a dictionary missing its first byte", rc_name(r)));
                        }
                    }
                    // without a dictionary the stream keeps asking
                    let dp = env.aux.put(dict, true);
                    let r = Rs::inflateSetDictionary(s.p(), dp, dict.len() as u32);
                    if r != Z_OK {
                        Rs::inflateEnd(s.p());
                        return Err(format!("inflateSetDictionary rejected the right dictionary: {}", rc_name(r)));
                    }
                    dict_set = true;
                    hist.data.extend_from_slice(dict);
                    check_inflate_getdict(&mut s, &hist, env, "after inflateSetDictionary (zlib)")?;
                }
                Z_OK | Z_BUF_ERROR => {
                    check_inflate_getdict(&mut s, &hist, env, &format!("after inflate call {ncalls}"))?;
                    if din == 0 && dout == 0 && pos == stream.len() {
                        Rs::inflateEnd(s.p());
                        return Err(format!("inflate wants more input after the whole {}-byte stream ({} bytes out)", stream.len(), out.len()));
                    }
                }
                Z_STREAM_END => {
                    if let Err(e) = check_inflate_getdict(&mut s, &hist, env, "after Z_STREAM_END") {
                        // distinguish the one zlib-compatible staleness from any other discrepancy
                        let stale = Hist { data: hist.data[..hist.data.len() - dout].to_vec() };
                        if dout > 0 && cfg.wrap != Wrap::Raw && check_inflate_getdict(&mut s, &stale, env, "").is_ok() {
                            c.soft_violation(format!("inflateGetDictionary after the call that verified the trailer misses that call's output ({dout} bytes): the window is not updated once the check value has been consumed (zlib behaves the same)"));
                        } else {
                            Rs::inflateEnd(s.p());
                            return Err(e);
                        }
                    }
                    break;
                }
                other => {
                    Rs::inflateEnd(s.p());
                    return Err(format!("inflate returned {} after {pos} of {} bytes ({} bytes out)", rc_name(other), stream.len(), out.len()));
                }
            }
            if ncalls > 400_000 {
                Rs::inflateEnd(s.p());
                return Err("non-termination in inflate with dictionary".into());
            }
        }
        if has_fdict && !dict_set {
            Rs::inflateEnd(s.p());
            return Err("stream with FDICT decoded without asking for the dictionary".into());
        }
        if out != *input {
            Rs::inflateEnd(s.p());
            return Err(format!("round trip with dictionary differs: {} bytes decoded, {} bytes input, first difference {:?}", out.len(), input.len(), out.iter().zip(input).position(|(a, b)| a != b)));
        }
        if pos != stream.len() {
            Rs::inflateEnd(s.p());
            return Err(format!("stream end after {pos} of {} bytes", stream.len()));
        }
        // the decoder recycled for the same stream (inflateResetKeep, then inflateReset): the dictionary installed for
        // the previous stream is forgotten, the new stream asks for it again and reproduces the data
        if has_fdict && in_chunk == AMPLE && room == AMPLE {
            for keep in [true, false] {
                let r = if keep { Rs::inflateResetKeep(s.p()) } else { Rs::inflateReset(s.p()) };
                let what = if keep { "inflateResetKeep" } else { "inflateReset" };
                if r != Z_OK {
                    Rs::inflateEnd(s.p());
                    return Err(format!("{what} returned {}", rc_name(r)));
                }
                let mut out2: Vec<u8> = vec![];
                let mut pos2 = 0usize;
                let mut asked = false;
                for _ in 0..4 {
                    let room_n = input.len() + 1024;
                    let pin = env.ain.put(&stream[pos2..], true);
                    let pout = env.aout.at_end(room_n);
                    s.z.next_in = pin;
                    s.z.avail_in = (stream.len() - pos2) as u32;
                    s.z.next_out = pout;
                    s.z.avail_out = room_n as u32;
                    c.exec();
                    let ret = Rs::inflate(s.p(), Z_NO_FLUSH);
                    pos2 = stream.len() - s.z.avail_in as usize;
                    out2.extend_from_slice(std::slice::from_raw_parts(pout, room_n - s.z.avail_out as usize));
                    if ret == Z_NEED_DICT && !asked {
                        asked = true;
                        if s.z.adler as u32 != cksum::adler32(1, dict) {
                            Rs::inflateEnd(s.p());
                            return Err(format!("after {what}: Z_NEED_DICT reports id {:#x}", s.z.adler));
                        }
                        let dp = env.aux.put(dict, true);
                        let r = Rs::inflateSetDictionary(s.p(), dp, dict.len() as u32);
                        if r != Z_OK {
                            Rs::inflateEnd(s.p());
                            return Err(format!("after {what}: inflateSetDictionary returned {}", rc_name(r)));
                        }
                        continue;
                    }
                    if ret == Z_STREAM_END {
                        break;
                    }
                    Rs::inflateEnd(s.p());
                    return Err(format!("after {what} the same stream with FDICT: inflate returned {} (dictionary requested again: {asked})", rc_name(ret)));
                }
                if !asked || out2 != *input {
                    Rs::inflateEnd(s.p());
                    return Err(format!("after {what} the decoder did not ask for the dictionary again ({asked}) or reproduced {} of {} bytes", out2.len(), input.len()));
                }
            }
        }
        Rs::inflateEnd(s.p());
        Ok(())
    }
}

/// a zlib stream with FDICT must stay at Z_NEED_DICT when no dictionary is supplied
fn no_dict_keeps_asking(stream: &[u8], env: &Env) -> Result<(), String> {
    let t = run_inflate::<Rs>(15, stream, &ISched::one_shot(), env, &IExtra::default(), None)?;
    match t.fin {
        Fin::NeedDict(_) => Ok(()),
        other => Err(format!("zlib stream with FDICT and no dictionary supplied ended with {other:?}")),
    }
}

/// raw stream, second dictionary installed between blocks on both sides
fn between_blocks(c: &mut Case, cfg: &DCfg, d1: &[u8], d2: &[u8], p1: &[u8], p2: &[u8], env: &Env) -> Result<(), String> {
    unsafe {
        let w = cfg.w_size();
        let mut s = Strm::guarded(0x11);
        let r = deflate_init::<Rs>(&mut s, cfg);
        if r != Z_OK {
            return Err("init".into());
        }
        let mut hist = Hist { data: vec![] };
        let mut out = vec![];
        let ample = (p1.len() + p2.len()) * 2 + 4096;
        let mut flush_pos = 0;
        for (k, (d, p, flush)) in [(d1, p1, Z_SYNC_FLUSH), (d2, p2, Z_FINISH)].into_iter().enumerate() {
            let dp = env.aux.put(d, true);
            let r = Rs::deflateSetDictionary(s.p(), dp, d.len() as u32);
            if r != Z_OK {
                Rs::deflateEnd(s.p());
                return Err(format!("deflateSetDictionary #{k} between blocks of a raw stream returned {}", rc_name(r)));
            }
            hist.data.extend_from_slice(d);
            check_deflate_getdict(&mut s, &hist, w, env, &format!("after dictionary #{k}"))?;
            let pin = env.ain.put(p, true);
            let pout = env.aout.at_end(ample);
            s.z.next_in = pin;
            s.z.avail_in = p.len() as u32;
            s.z.next_out = pout;
            s.z.avail_out = ample as u32;
            let ret = Rs::deflate(s.p(), flush);
            c.exec();
            if s.z.avail_in != 0 || !(ret == Z_OK || ret == Z_STREAM_END) {
                Rs::deflateEnd(s.p());
                return Err(format!("deflate part {k}: rc {} avail_in {}", rc_name(ret), s.z.avail_in));
            }
            let dout = ample - s.z.avail_out as usize;
            out.extend_from_slice(std::slice::from_raw_parts(pout, dout));
            hist.data.extend_from_slice(p);
            check_deflate_getdict(&mut s, &hist, w, env, &format!("after part {k}"))?;
            if k == 0 {
                flush_pos = out.len();
            }
        }
        Rs::deflateEnd(s.p());
        // decode: part 1, then dictionary 2, then the rest
        let mut s = Strm::guarded(0x22);
        Rs::inflateInit2_(s.p(), -15, Rs::zlibVersion(), STREAM_SIZE);
        let mut hist = Hist { data: vec![] };
        let mut dec = vec![];
        let mut off = 0;
        for (k, (d, end)) in [(d1, flush_pos), (d2, out.len())].into_iter().enumerate() {
            let dp = env.aux.put(d, true);
            let r = Rs::inflateSetDictionary(s.p(), dp, d.len() as u32);
            if r != Z_OK {
                Rs::inflateEnd(s.p());
                return Err(format!("inflateSetDictionary #{k} on a raw stream returned {}", rc_name(r)));
            }
            hist.data.extend_from_slice(d);
            let room = p1.len() + p2.len() + 64;
            let pin = env.ain.put(&out[off..end], true);
            let pout = env.aout.at_end(room);
            s.z.next_in = pin;
            s.z.avail_in = (end - off) as u32;
            s.z.next_out = pout;
            s.z.avail_out = room as u32;
            let ret = Rs::inflate(s.p(), Z_NO_FLUSH);
            c.exec();
            let dout = room - s.z.avail_out as usize;
            dec.extend_from_slice(std::slice::from_raw_parts(pout, dout));
            hist.data.extend_from_slice(std::slice::from_raw_parts(pout, dout));
            if s.z.avail_in != 0 || (k == 0 && ret != Z_OK) || (k == 1 && ret != Z_STREAM_END) {
                Rs::inflateEnd(s.p());
                return Err(format!("inflate part {k}: rc {} with {} input bytes left", rc_name(ret), s.z.avail_in));
            }
            check_inflate_getdict(&mut s, &hist, env, &format!("after part {k} (between-blocks)"))?;
            off = end;
        }
        Rs::inflateEnd(s.p());
        let mut want = p1.to_vec();
        want.extend_from_slice(p2);
        if dec != want {
            return Err(format!("raw stream with dictionaries between blocks does not round-trip ({} vs {} bytes)", dec.len(), want.len()));
        }
        Ok(())
    }
}

/// the same protocol through the safe wrappers: Deflate::set_dictionary returns the dictionary's Adler-32, the zlib
/// stream announces it, Inflate::decompress answers NeedDict with that id, a wrong dictionary is refused, the right
/// one accepted, and the data comes back; raw streams round-trip with the dictionary installed on both sides
fn rust_api(ctx: &mut Ctx) {
    let quick = ctx.quick();
    for wb in [9u8, 12, 15] {
        let w = 1usize << wb;
        for dl in [1usize, 3, 258, w - 262, w, w + 1, 2 * w + 1] {
            let dict = text(41, dl);
            let mut input = dict[dict.len().saturating_sub(300)..].to_vec();
            input.extend(text(8, 900));
            input.extend_from_slice(&dict[..dict.len().min(40)]);
            for level in if quick { vec![0, 1, 6, 9] } else { (0..=9).collect::<Vec<i32>>() } {
                for hdr in [true, false] {
                    ctx.case(
                        "rust-api-dict",
                        || format!("Deflate::new({level}, zlib_header={hdr}, {wb}) ; set_dictionary(text({dl})) ; compress({} bytes, Finish) ; Inflate: NeedDict / wrong dictionary / right dictionary / data", input.len()),
                        |c| {
                            c.exec();
                            let want_id = cksum::adler32(1, &dict);
                            let mut d = zlib_rs::Deflate::new(level, hdr, wb);
                            let id = d.set_dictionary(&dict).map_err(|e| format!("Deflate::set_dictionary: {e:?}"))?;
                            if hdr && id != want_id {
                                return Err(format!("Deflate::set_dictionary returned {id:#x}, the dictionary's Adler-32 is {want_id:#x}"));
                            }
                            let mut z = vec![0u8; input.len() * 2 + 200];
                            let r = d.compress(&input, &mut z, zlib_rs::DeflateFlush::Finish);
                            if r != Ok(zlib_rs::Status::StreamEnd) {
                                return Err(format!("Deflate::compress: {r:?}"));
                            }
                            z.truncate(d.total_out() as usize);
                            if hdr && (z[1] & 0x20 == 0 || z[2..6] != want_id.to_be_bytes()) {
                                return Err(format!("the zlib header does not announce the dictionary: {}", hex(&z[..6])));
                            }
                            c.exec();
                            let mut out = vec![0u8; input.len() + 64];
                            let mut i = zlib_rs::Inflate::new(hdr, wb);
                            let mut pos = 0usize;
                            if hdr {
                                match i.decompress(&z, &mut out, zlib_rs::InflateFlush::NoFlush) {
                                    Err(zlib_rs::InflateError::NeedDict { dict_id }) if dict_id == want_id => {}
                                    other => return Err(format!("Inflate::decompress on a stream with FDICT: {other:?}, expected NeedDict {{ dict_id: {want_id:#x} }}")),
                                }
                                pos = i.total_in() as usize;
                                let mut wrong = dict.clone();
                                wrong[0] ^= 1;
                                if i.set_dictionary(&wrong) != Err(zlib_rs::InflateError::DataError) {
                                    return Err("Inflate::set_dictionary accepted a dictionary with another Adler-32".into());
                                }
                                if i.set_dictionary(&dict) != Ok(want_id) {
                                    return Err("Inflate::set_dictionary refused the right dictionary or returned another id".into());
                                }
                            } else {
                                i.set_dictionary(&dict).map_err(|e| format!("Inflate::set_dictionary on a raw stream: {e:?}"))?;
                            }
                            let r = i.decompress(&z[pos..], &mut out, zlib_rs::InflateFlush::Finish);
                            if r != Ok(zlib_rs::Status::StreamEnd) || out[..i.total_out() as usize] != input[..] {
                                return Err(format!("after the dictionary was installed: {r:?}, {} of {} bytes reproduced", i.total_out(), input.len()));
                            }
                            c.outcome(hash_bytes(&z));
                            c.nontrivial();
                            c.validated();
                            Ok(())
                        },
                    );
                }
            }
        }
    }
}

pub fn run(ctx: &mut Ctx) {
    rust_api(ctx);
    let env = Env::new();
    let rows = hfam::dict_rows(ctx.quick());
    for row in &rows {
        ctx.case(
            "dict",
            || row.desc(),
            |c| {
                let out = deflate_with_dict(c, row, &env)?;
                c.outcome(hash_bytes(&out));
                c.nontrivial();
                c05::check_stream(c, &row.cfg, &row.input.data, &out, Some(&row.dict.data), None)?;
                inflate_with_dict(c, row, &out, &env, AMPLE, AMPLE, 15)?;
                inflate_with_dict(c, row, &out, &env, 1, AMPLE, 15)?;
                inflate_with_dict(c, row, &out, &env, AMPLE, 300, 15)?;
                // a decoder told about the small window: history and acceptance are the same (it keeps 32 KiB anyway)
                let own = row.cfg.wbits.max(9);
                if own != 15 {
                    inflate_with_dict(c, row, &out, &env, AMPLE, AMPLE, own)?;
                    inflate_with_dict(c, row, &out, &env, AMPLE, 300, own)?;
                    if row.cfg.wrap == Wrap::Zlib {
                        inflate_with_dict(c, row, &out, &env, 7, AMPLE, 0)?;
                    }
                }
                if row.cfg.wrap == Wrap::Zlib && !row.dict.data.is_empty() {
                    no_dict_keeps_asking(&out, &env)?;
                }
                c.validated();
                Ok(())
            },
        );
    }
    // dictionaries between blocks (raw)
    for wbits in [9, 15] {
        let w = 1usize << wbits;
        for level in [0, 1, 4, 9] {
            for (l1, l2) in [(0usize, 3usize), (5, w), (w + 1, 2 * w + 7), (300, 300)] {
                let cfg = DCfg { level, strategy: 0, wbits, mem_level: 1, wrap: Wrap::Raw };
                let d1 = text(1, l1);
                let d2 = text(2, l2);
                let mut p1 = d1[d1.len().saturating_sub(100)..].to_vec();
                p1.extend(text(3, 700));
                let mut p2 = d2[d2.len().saturating_sub(100)..].to_vec();
                p2.extend(text(4, w + 50));
                ctx.case(
                    "dict-between-blocks",
                    || format!("cfg[{}] dict1={} dict2={} part1={} part2={}", cfg.desc(), l1, l2, p1.len(), p2.len()),
                    |c| {
                        between_blocks(c, &cfg, &d1, &d2, &p1, &p2, &env)?;
                        c.validated();
                        Ok(())
                    },
                );
            }
        }
    }
}

/// used by C12: dictionaries and gzip headers in lock-step with zlib-ng
pub fn dict_and_header_lockstep(ctx: &mut Ctx, env: &Env) {
    let rows = hfam::dict_rows(ctx.quick());
    for row in &rows {
        ctx.case(
            "dict-lockstep",
            || row.desc(),
            |c| {
                c.exec();
                let ex = DExtra { dict: Some(&row.dict.data), ..Default::default() };
                let a = run_deflate::<Rs>(&row.cfg, &row.input.data, &row.sched, env, &ex, None)?;
                c.exec();
                let Ok(b) = run_deflate::<Ng>(&row.cfg, &row.input.data, &row.sched, env, &ex, None) else {
                    c.count("reference_not_comparable", 1);
                    return Ok(());
                };
                c.outcome(hash_bytes(&a.out));
                if a.out != b.out {
                    return Err(format!("compressed bytes with a preset dictionary differ from zlib-ng: {}", first_diff(&a.out, &b.out)));
                }
                c.validated();
                Ok(())
            },
        );
    }
    let hrows = hfam::hdr_rows(ctx.quick());
    let body = text(12, 40);
    for row in &hrows {
        ctx.case(
            "gzhdr-lockstep",
            || row.desc(),
            |c| {
                c.exec();
                let ex = DExtra { gz: Some(&row.gz), ..Default::default() };
                let a = run_deflate::<Rs>(&row.cfg, &body, &row.sched, env, &ex, None)?;
                c.exec();
                let Ok(b) = run_deflate::<Ng>(&row.cfg, &body, &row.sched, env, &ex, None) else {
                    c.count("reference_not_comparable", 1);
                    return Ok(());
                };
                c.outcome(hash_bytes(&a.out));
                if a.out != b.out {
                    return Err(format!("gzip stream with custom header differs from zlib-ng: {}", first_diff(&a.out, &b.out)));
                }
                c.validated();
                Ok(())
            },
        );
    }
}
