//! C03 — the decoder accepts exactly the valid streams and decodes them exactly.

use crate::api::*;
use crate::drv::*;
use crate::engine::*;
use crate::refs::inflate_ref::RefOpts;
use crate::refs::wrap::{self as r3, Wrapped};
use crate::zfam;

pub const INFO: CheckInfo = CheckInfo {
    prop: "C03",
    level: "model_checking",
    rule: "bounded exhaustive enumeration of byte strings: the R4-built corpus (every token program of <= 2 (quick) / 3 (thorough) tokens over {lit, lit, match(3,1), match(4,2), match(10,1), match(258,1), match(257,3), match(3,4)} in fixed and dynamic blocks, stored blocks at all 8 bit offsets, every complete canonical code on <= 5 symbols incl. extremes, 15-bit codes, 286/30-symbol alphabets, +-1 length faults, illegal HLIT/HDIST) in raw / zlib / gzip wrappers (R3 headers with all field combinations) x {intact, trailing garbage, every truncation, every single-bit flip} x windowBits arguments (raw -8..-15, zlib 0/8..15, gzip 16+, auto 32+), plus all byte strings of length <= 2 (3 in thorough); every intact valid stream is also decoded into a buffer of exactly the decoded size + {0,1,2,7,8,15,16,31,32,33,63,64} bytes (Z_FINISH and Z_NO_FLUSH). Verdict (complete / need more / data error / need dict), output bytes and consumed length are compared with the reference R2+R3; when the reference says 'invalid' and zlib-rs still wants input, 16 padding bytes are appended and a data error is required. The corpus includes the code-length sets needing the largest two-level decoding tables (every histogram of a class ranked by an independent model of the sub-table sizing rule; the maximum found is the known bound of 1332 entries). Disagreements where zlib-ng sides with zlib-rs are counted as model_divergence, not reported. distinct_nontrivial = distinct (verdict, output, consumed) outcomes.",
    assumptions: &["R2/R3/R4 trusted (self-tested against zlib-ng at start-up)", "zlib's non-strict reading: 32 KiB history whatever window is announced; incomplete codes only when all codes have length 1", "strings that are neither in the corpus nor <= 2/3 bytes long are not covered"],
    bound_quick: "every intact valid stream <= 400 bytes also fed 1, 2 and 3 bytes per call (resumed decoding states) against the generator's expected bytes; token programs <= 2, H-codes with 2 fault positions, all strings <= 2 bytes, every bit flip/truncation of streams <= 300 bytes",
    bound_thorough: "token programs <= 3, all H-code fault positions, all strings <= 3 bytes, byte substitutions 0x00/0xff",
};

fn ref_verdict(wb: i32, bytes: &[u8]) -> Wrapped {
    let o = RefOpts::zlib();
    if wb < 0 {
        return r3::decode_raw(bytes, &o);
    }
    let wbits = wb & 15;
    let max_cinfo = if wbits == 0 { 7 } else { (wbits - 8) as u8 };
    if wb >= 32 {
        // auto-detect: gzip magic selects gzip, otherwise zlib
        if bytes.is_empty() {
            return Wrapped::Short { out: vec![] };
        }
        // zlib looks at the first two bytes as one unit
        if bytes.len() < 2 {
            return Wrapped::Short { out: vec![] };
        }
        if bytes[0] == 0x1f && bytes[1] == 0x8b {
            return r3::decode_gzip(bytes, &o);
        }
        return r3::decode_zlib(bytes, &o, max_cinfo);
    }
    if wb >= 16 {
        r3::decode_gzip(bytes, &o)
    } else {
        r3::decode_zlib(bytes, &o, max_cinfo)
    }
}

fn is_prefix(a: &[u8], b: &[u8]) -> bool {
    a.len() <= b.len() && b[..a.len()] == *a
}

fn agree(t: &ITrace, w: &Wrapped) -> Result<(), String> {
    match w {
        Wrapped::Ok { out, used, .. } => {
            if t.fin != Fin::StreamEnd {
                return Err(format!("valid stream (reference: {} bytes out, {} bytes long) but zlib-rs ends with {:?} after {} bytes", out.len(), used, t.fin, t.consumed));
            }
            if t.out != *out {
                return Err(format!("valid stream decodes to different bytes: zlib-rs {} bytes, reference {} bytes, first difference at {:?}", t.out.len(), out.len(), t.out.iter().zip(out).position(|(a, b)| a != b)));
            }
            if t.consumed != *used {
                return Err(format!("stream occupies {used} bytes but zlib-rs reports {} consumed", t.consumed));
            }
        }
        Wrapped::Short { out } => {
            if t.fin != Fin::NeedMore {
                return Err(format!("proper prefix of a (so far) valid stream: reference needs more input, zlib-rs ends with {:?}", t.fin));
            }
            if !is_prefix(&t.out, out) {
                return Err(format!("output on a truncated stream contradicts the reference ({} bytes vs {} decodable)", t.out.len(), out.len()));
            }
        }
        Wrapped::Bad { why, out } => {
            if t.fin != Fin::DataError {
                return Err(format!("invalid stream ({why}) but zlib-rs ends with {:?} after {} bytes, {} bytes out", t.fin, t.consumed, t.out.len()));
            }
            if !is_prefix(&t.out, out) {
                return Err(format!("bytes emitted before the rejection ({}) are not a prefix of what the reference decodes before the fault ({})", t.out.len(), out.len()));
            }
        }
        Wrapped::NeedDict { dictid } => {
            if t.fin != Fin::NeedDict(*dictid) {
                return Err(format!("zlib header with FDICT (id {dictid:#x}) but zlib-rs ends with {:?}", t.fin));
            }
        }
    }
    Ok(())
}

/// the core oracle, shared with C02/C04/C08
pub fn judge(c: &mut Case, env: &Env, wb: i32, bytes: &[u8]) -> Result<(), String> {
    let w = ref_verdict(wb, bytes);
    c.exec();
    let ex = IExtra { probe: true, ..Default::default() };
    let t = run_inflate::<Rs>(wb, bytes, &ISched::one_shot(), env, &ex, Some(c))?;
    c.outcome(t.outcome_hash());
    let mut verdict = agree(&t, &w);
    if verdict.is_err() {
        if let (Wrapped::Bad { .. }, Fin::NeedMore) = (&w, t.fin) {
            // invalidity already determined by the reference, zlib-rs waits for a complete field: pad
            let mut padded = bytes.to_vec();
            padded.extend_from_slice(&[0u8; 16]);
            c.exec();
            let t2 = run_inflate::<Rs>(wb, &padded, &ISched::one_shot(), env, &IExtra::default(), None)?;
            if t2.fin == Fin::DataError && t.out.len() <= t2.out.len() {
                verdict = Ok(());
                c.count("bad_detected_after_padding", 1);
            }
        }
    }
    if let Err(e) = verdict {
        // tie-breaker: the reference implementation
        c.exec();
        match run_inflate::<Ng>(wb, bytes, &ISched::one_shot(), env, &IExtra::default(), None) {
            Ok(n) if n.fin == t.fin && n.out == t.out && n.consumed == t.consumed => {
                c.count("model_divergence", 1);
                c.note("model_divergence", format!("windowBits {wb} bytes {}: {e}", hex(&bytes[..bytes.len().min(64)])));
                c.log(&format!("model divergence (zlib-ng sides with zlib-rs): {e}"));
                return Ok(());
            }
            Ok(n) => return Err(format!("{e}; zlib-ng: {:?} after {} bytes, {} bytes out", n.fin, n.consumed, n.out.len())),
            Err(ne) => return Err(format!("{e}; zlib-ng: {ne}")),
        }
    }
    // "bytes emitted before a rejection never contradict what the reference zlib emits"
    if t.fin == Fin::DataError {
        c.exec();
        if let Ok(n) = run_inflate::<Ng>(wb, bytes, &ISched::one_shot(), env, &IExtra::default(), None) {
            if !(is_prefix(&t.out, &n.out) || is_prefix(&n.out, &t.out)) {
                return Err(format!("bytes emitted before the rejection contradict zlib-ng's ({} vs {} bytes)", t.out.len(), n.out.len()));
            }
        }
    }
    c.validated();
    Ok(())
}

pub fn run(ctx: &mut Ctx) {
    let quick = ctx.quick();
    let env = Env::new();
    let corp = zfam::corpus(quick);
    zfam::for_each(ctx, &corp, quick, true, |ctx, it| {
        ctx.case(
            "corpus",
            || it.desc(),
            |c| {
                if it.mut_idx != 0 {
                    c.nontrivial();
                }
                judge(c, &env, it.wb, it.bytes)?;
                // a valid stream decoded into a buffer of exactly the decoded size, or a few bytes more (how
                // one-shot callers size their buffers): copies that end at or near the end of the room
                if it.intact_valid {
                    let want = it.gen.expected.as_ref().unwrap();
                    // (with a windowBits argument smaller than the window the zlib header announces the stream is
                    // refused whatever the room: the ample-room run, judged above, is the baseline)
                    c.exec();
                    let t0 = run_inflate::<Rs>(it.wb, it.bytes, &ISched::one_shot(), &env, &IExtra { expect_out: want.len(), ..Default::default() }, None)?;
                    if t0.fin == Fin::StreamEnd && want.len() <= 70000 {
                        for k in [0usize, 1, 2, 7, 8, 15, 16, 31, 32, 33, 63, 64] {
                            c.exec();
                            let s = ISched { steps: vec![IStep { n: AMPLE, room: want.len() + k, flush: if k % 2 == 0 { Z_FINISH } else { Z_NO_FLUSH } }], tail_in: AMPLE, tail_room: AMPLE, tail_flush: Z_NO_FLUSH };
                            let t = run_inflate::<Rs>(it.wb, it.bytes, &s, &env, &IExtra { expect_out: want.len(), ..Default::default() }, None)?;
                            // (nothing after the last data byte needs output space - empty stored blocks, the end-of-block
                            // code, the trailer: one call with all the input reaches the end of the stream)
                            if t.calls.len() != 1 {
                                return Err(format!("decoding into a buffer of the decoded size + {k} bytes with all the input at hand took {} inflate calls (the first returned {}): the stream needs no further output space", t.calls.len(), rc_name(t.calls[0].ret)));
                            }
                            if t.fin != Fin::StreamEnd || t.out != *want || t.consumed != it.bytes.len() {
                                return Err(format!("decoding into a buffer of the decoded size + {k} bytes: {:?} after {} of {} bytes, {} bytes out (first difference at {:?}); with ample room the stream is accepted", t.fin, t.consumed, it.bytes.len(), t.out.len(), t.out.iter().zip(want).position(|(a, b)| a != b)));
                            }
                        }
                        c.count("exact_size_output_runs", 12);
                    }
                    // "decodes them exactly" holds however the valid stream arrives: every decoding state that can be
                    // left and re-entered between two calls (length / distance extra bits, code lengths, stored copy,
                    // trailer fields) is resumed when the input comes 1, 2 or 3 bytes at a time (C04 compares the
                    // schedules with each other; here the result is held against the generator's expected bytes)
                    if t0.fin == Fin::StreamEnd && it.bytes.len() <= 400 && want.len() <= 70000 {
                        for n in [1usize, 2, 3] {
                            c.exec();
                            let s = ISched::uniform(n, AMPLE, Z_NO_FLUSH);
                            let t = run_inflate::<Rs>(it.wb, it.bytes, &s, &env, &IExtra { expect_out: want.len(), ..Default::default() }, None)?;
                            if t.fin != Fin::StreamEnd || t.out != *want || t.consumed != it.bytes.len() {
                                return Err(format!("valid stream fed {n} byte(s) per call: {:?} after {} of {} bytes, {} bytes out (first difference at {:?}); in one call it is accepted and decodes exactly", t.fin, t.consumed, it.bytes.len(), t.out.len(), t.out.iter().zip(want).position(|(a, b)| a != b)));
                            }
                        }
                        c.count("small_input_piece_runs", 3);
                    }
                }
                Ok(())
            },
        );
    });
    // a recycled decoder judges like a fresh one (every short corpus stream after 30 earlier histories)
    crate::checks::c14::inflate_reset_probes(ctx, &crate::machine::MEnv::new(), "recycled-decoder");
    // all short strings x modes
    let n = if quick { 2 } else { 3 };
    let modes: &[i32] = if quick { &[-15, 15, 31, 47, 0, -8] } else { &[-15, -8, 15, 8, 0, 31, 24, 47, 40, 32] };
    for s in zfam::short_strings(n) {
        for &wb in modes {
            ctx.case("short-strings", || format!("bytes={} windowBits={wb}", hex(&s)), |c| judge(c, &env, wb, &s));
        }
    }
}
