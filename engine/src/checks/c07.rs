//! C07 — deflateBound / compressBound are true upper bounds on compressed size.

use crate::api::*;
use crate::drv::*;
use crate::engine::*;
use crate::inputs::*;
use crate::mem::Arena;
use crate::refs::wrap::GzFields;
use std::ffi::c_ulong;

pub const INFO: CheckInfo = CheckInfo {
    prop: "C07",
    level: "model_checking",
    rule: "bounded exhaustive enumeration of (configuration x input length x worst-case input pattern): ALL 9450 configurations (level 0..9 x 5 strategies x windowBits 9..15 x memLevel 1..9 x raw/zlib/gzip) x lengths {0..40, 126..130, 254..258, 507..520, 4095..4097} (boundary lengths of the stored-block, pending-buffer and symbol-buffer limits) and the edge configurations x {65535..65537, 200000}; patterns {incompressible (lcg), flat 256-symbol distribution, 9-bit-literals only, alternating incompressible/compressible blocks sized to the symbol buffer}; every string over a 4-symbol alphabet up to length 4 (6); gzip headers {none, extra 0/5/65535, name/comment 0/5/600, hcrc}; preset dictionaries {3, w, 2w}. For each: deflateBound is queried on the configured stream (after header/dictionary were installed), the output buffer is exactly that size with a PROT_NONE page behind it, and ONE deflate(Z_FINISH) call must return Z_STREAM_END with total_out <= bound. compress/compress2/compress_slice into compressBound likewise. distinct_nontrivial = distinct (configuration class, length, slack = bound - size) outcomes; the minimum slack seen is reported. Dictionary family: preset dictionaries of 1, 2, 3, 4, 258, w, 2w bytes x 10 levels x n in 0..=40, 100, 300, 5000.",
    assumptions: &["inputs other than the listed worst-case patterns at the listed lengths are not covered; the bound is a claim over all inputs of a length, the patterns are the known worst cases per configuration class"],
    bound_quick: "K-all x 3 patterns x 66 lengths (stride 2 over memLevel/windowBits pairs), edge configs x big lengths",
    bound_thorough: "K-all (9450 configurations) x 4 patterns x every length 0..1100 and 2^k +- 2 up to 64 KiB; tiny strings (4,6) x K-small",
};

fn patterns(n: usize, m: usize) -> Vec<(&'static str, Vec<u8>)> {
    let mut alt = vec![];
    let mut k = 0u32;
    while alt.len() < n {
        // m-1 incompressible bytes (fills one symbol buffer), then a short run
        alt.extend(lcg_bytes(k * 17 + 3, (m - 1).min(n - alt.len())));
        let r = 20.min(n - alt.len());
        alt.extend(std::iter::repeat(b'z').take(r));
        k += 1;
    }
    vec![("lcg", lcg_bytes(9, n)), ("flat256", flat256(n)), ("ninebit", nine_bit(n)), ("alt", alt)]
}

struct Bufs {
    ain: Arena,
    aout: Arena,
    aux: Arena,
}

#[allow(clippy::too_many_arguments)]
fn one(c: &mut Case, b: &Bufs, cfg: &DCfg, input: &[u8], gz: Option<&GzFields>, dict: Option<&[u8]>, what: &str) -> Result<(), String> {
    one_ex(c, b, cfg, input, gz, dict, what, false)
}

/// `recycled`: the stream first compresses something else into a 1-byte buffer (output left pending, stream
/// abandoned) and is then reset with deflateReset: the bound holds for a recycled stream as for a fresh one
#[allow(clippy::too_many_arguments)]
fn one_ex(c: &mut Case, b: &Bufs, cfg: &DCfg, input: &[u8], gz: Option<&GzFields>, dict: Option<&[u8]>, what: &str, recycled: bool) -> Result<(), String> {
    unsafe {
        let mut s = Strm::plain();
        let r = deflate_init::<Rs>(&mut s, cfg);
        if r != Z_OK {
            return Err(format!("deflateInit2 returned {}", rc_name(r)));
        }
        if recycled {
            let junk = lcg_bytes(99, 3000);
            let pin = b.ain.put(&junk, true);
            let pout = b.aout.at_end(1);
            s.z.next_in = pin;
            s.z.avail_in = junk.len() as u32;
            s.z.next_out = pout;
            s.z.avail_out = 1;
            c.exec();
            let _ = Rs::deflate(s.p(), Z_SYNC_FLUSH);
            let r = Rs::deflateReset(s.p());
            if r != Z_OK {
                Rs::deflateEnd(s.p());
                return Err(format!("deflateReset returned {}", rc_name(r)));
            }
        }
        let _hold;
        if let Some(f) = gz {
            let mut h = make_gz_header(f);
            let r = Rs::deflateSetHeader(s.p(), &mut *h.head);
            if r != Z_OK {
                Rs::deflateEnd(s.p());
                return Err(format!("deflateSetHeader returned {}", rc_name(r)));
            }
            _hold = h;
        }
        if let Some(d) = dict {
            let p = b.aux.put(d, true);
            let r = Rs::deflateSetDictionary(s.p(), p, d.len() as u32);
            if r != Z_OK {
                Rs::deflateEnd(s.p());
                return Err(format!("deflateSetDictionary returned {}", rc_name(r)));
            }
        }
        let bound = Rs::deflateBound(s.p(), input.len() as c_ulong) as usize;
        let pin = b.ain.put(input, true);
        let pout = b.aout.at_end(bound);
        s.z.next_in = pin;
        s.z.avail_in = input.len() as u32;
        s.z.next_out = pout;
        s.z.avail_out = bound as u32;
        c.exec();
        let ret = Rs::deflate(s.p(), Z_FINISH);
        let produced = bound - s.z.avail_out as usize;
        let total_out = s.z.total_out as usize;
        let left_in = s.z.avail_in;
        Rs::deflateEnd(s.p());
        if ret == Z_OK && produced == bound && left_in == 0 && cfg.wrap == Wrap::Raw {
            // is the stream nevertheless complete? (exact fit: zlib reports Z_OK when the last block filled the buffer)
            let out = std::slice::from_raw_parts(pout, produced);
            let mut o = crate::refs::inflate_ref::RefOpts::zlib();
            if let Some(d) = dict {
                o.dict = d[d.len() - d.len().min(1 << cfg.wbits.max(9))..].to_vec();
            }
            if let crate::refs::inflate_ref::RefResult::Complete { out: dec, bits_used, .. } = crate::refs::inflate_ref::inflate_raw(out, &o) {
                if dec == input && (bits_used + 7) / 8 == produced {
                    // the tolerated corner (finding F5) is exactly: the reference implementation, given the same
                    // parameters, input and buffer size, also answers Z_OK with the buffer full
                    let mut n = Strm::plain();
                    let mut ng_same = false;
                    if deflate_init::<Ng>(&mut n, cfg) == Z_OK {
                        let mut ok = true;
                        if let Some(d) = dict {
                            let p = b.aux.put(d, true);
                            ok = Ng::deflateSetDictionary(n.p(), p, d.len() as u32) == Z_OK;
                        }
                        if ok {
                            let nout = b.aux.at_end(bound);
                            n.z.next_in = pin;
                            n.z.avail_in = input.len() as u32;
                            n.z.next_out = nout;
                            n.z.avail_out = bound as u32;
                            c.exec();
                            let nret = Ng::deflate(n.p(), Z_FINISH);
                            ng_same = nret == Z_OK && n.z.avail_out == 0 && n.z.avail_in == 0;
                        }
                        Ng::deflateEnd(n.p());
                    }
                    if !ng_same {
                        return Err(format!("{what}: deflate(Z_FINISH) into deflateBound({}) = {bound} bytes wrote the whole stream but returned Z_OK instead of Z_STREAM_END, where zlib-ng returns Z_STREAM_END for the same call", input.len()));
                    }
                    c.soft_violation(format!("{what}: a complete stream of exactly deflateBound bytes ({bound}) was produced, but deflate(Z_FINISH) returned Z_OK instead of Z_STREAM_END (raw stream, exact fit; zlib-ng returns the same)"));
                    return Ok(());
                }
            }
        }
        if ret != Z_STREAM_END {
            return Err(format!("{what}: deflate(Z_FINISH) into deflateBound({}) = {bound} bytes returned {} after producing {produced} bytes: the bound is too small", input.len(), rc_name(ret)));
        }
        if total_out > bound {
            return Err(format!("{what}: total_out {total_out} > deflateBound {bound}"));
        }
        let slack = bound - total_out;
        c.outcome(hash_u32s(&[cfg.level as u32, cfg.strategy as u32, cfg.mem_level as u32, cfg.wrap as u32, input.len() as u32, slack.min(64) as u32]));
        c.state(hash_u32s(&[cfg.level as u32, cfg.strategy as u32, slack.min(16) as u32]));
        if slack <= 2 {
            c.count("executions_within_2_bytes_of_the_bound", 1);
        }
        Ok(())
    }
}

pub fn run(ctx: &mut Ctx) {
    let quick = ctx.quick();
    let b = Bufs { ain: Arena::new(1 << 18), aout: Arena::new(1 << 19), aux: Arena::new(1 << 17) };
    let mut lens: Vec<usize> = (0..=40).collect();
    lens.extend(126..=130);
    lens.extend(254..=258);
    lens.extend(507..=520);
    lens.extend(4095..=4097);
    if !quick {
        // thorough: every length up to 1100 and the neighbourhoods of the powers of two up to 64 KiB
        lens = (0..=1100).collect();
        for k in 11..=16 {
            lens.extend((1usize << k) - 2..=(1usize << k) + 2);
        }
    }
    let kall = k_all();
    for (ci, cfg) in kall.iter().enumerate() {
        if quick && (cfg.mem_level + cfg.wbits) % 2 != 0 && !(cfg.mem_level == 1 || cfg.mem_level == 9) {
            continue;
        }
        let _ = ci;
        let m = cfg.lit_bufsize();
        ctx.case(
            "bound-kall",
            || format!("cfg[{}] x {} lengths x worst-case patterns, one deflate(Z_FINISH) into exactly deflateBound bytes (guard page behind)", cfg.desc(), lens.len()),
            |c| {
                for &n in &lens {
                    for (pi, (pname, data)) in patterns(n, m).into_iter().enumerate() {
                        if quick && pi == 3 && n % 2 == 1 {
                            continue;
                        }
                        one(c, &b, cfg, &data, None, None, &format!("n={n} pattern={pname}"))?;
                        if (n + pi) % 4 == 0 {
                            one_ex(c, &b, cfg, &data, None, None, &format!("n={n} pattern={pname} on a recycled stream"), true)?;
                        }
                    }
                }
                c.nontrivial();
                c.validated();
                Ok(())
            },
        );
    }
    // big lengths on the edge configurations
    for cfg in k_edge() {
        for n in [65535usize, 65536, 65537, 200_000] {
            if quick && n == 200_000 && cfg.strategy != 0 {
                continue;
            }
            ctx.case(
                "bound-big",
                || format!("cfg[{}] n={n} worst-case patterns", cfg.desc()),
                |c| {
                    for (pname, data) in patterns(n, cfg.lit_bufsize()) {
                        one(c, &b, &cfg, &data, None, None, &format!("n={n} pattern={pname}"))?;
                    }
                    c.validated();
                    Ok(())
                },
            );
        }
    }
    // exhaustive tiny strings
    let tiny = tiny_strings(&[0x00, 0x61, 0x90, 0xff], if quick { 4 } else { 6 });
    for cfg in k_small() {
        ctx.case(
            "bound-tiny",
            || format!("cfg[{}] x all {} strings over 4 symbols", cfg.desc(), tiny.len()),
            |c| {
                for s in &tiny {
                    one(c, &b, &cfg, s, None, None, &format!("input {}", hex(s)))?;
                }
                c.validated();
                Ok(())
            },
        );
    }
    // gzip headers and dictionaries
    let extras: Vec<Option<usize>> = vec![None, Some(0), Some(5), Some(65535)];
    let names: Vec<Option<usize>> = vec![None, Some(0), Some(5), Some(600)];
    for ml in [1, 2, 8] {
        for level in [0, 1, 6, 9] {
            for &e in &extras {
                for &nm in &names {
                    for &cm in &names {
                        // the header-CRC request is a C int: every non-zero value counts
                        for hcrc_val in [0i32, 1, -1, 2, i32::MIN] {
                            let hcrc = hcrc_val != 0;
                            let gz = GzFields { text: false, mtime: 1, xfl: 0, os: 3, extra: e.map(|k| vec![7u8; k]), name: nm.map(|k| vec![b'n'; k]), comment: cm.map(|k| vec![b'c'; k]), hcrc, hcrc_val };
                            let cfg = DCfg { level, strategy: 0, wbits: 15, mem_level: ml, wrap: Wrap::Gzip };
                            ctx.case(
                                "bound-gzip-header",
                                || format!("cfg[{}] gz header extra={e:?} name={nm:?} comment={cm:?} hcrc={hcrc_val} x n in 0..=40, 100, 1000 x {{incompressible, 9-bit literals}}", cfg.desc()),
                                |c| {
                                    for n in (0usize..=40).chain([100, 1000]) {
                                        one(c, &b, &cfg, &lcg_bytes(4, n), Some(&gz), None, &format!("n={n} lcg"))?;
                                        one(c, &b, &cfg, &nine_bit(n), Some(&gz), None, &format!("n={n} ninebit"))?;
                                    }
                                    c.validated();
                                    Ok(())
                                },
                            );
                        }
                    }
                }
            }
        }
    }
    let dict_src = text(5, 70000);
    for wbits in [9, 15] {
        let w = 1usize << wbits;
        for wrap in [Wrap::Raw, Wrap::Zlib] {
            for level in 0..=9 {
                // (dictionary lengths below the minimum match length still make the zlib header carry a dictionary id)
                for dl in [1usize, 2, 3, 4, 258, w, 2 * w] {
                    let cfg = DCfg { level, strategy: 0, wbits, mem_level: if wbits == 9 { 1 } else { 8 }, wrap };
                    ctx.case(
                        "bound-dictionary",
                        || format!("cfg[{}] dictionary of {dl} bytes x n in 0..=40, 100, 300, 5000 x {{incompressible, 9-bit literals, related to the dictionary}}", cfg.desc()),
                        |c| {
                            for n in (0usize..=40).chain([100, 300, 5000]) {
                                one(c, &b, &cfg, &lcg_bytes(6, n), None, Some(&dict_src[..dl]), &format!("n={n}"))?;
                                one(c, &b, &cfg, &nine_bit(n), None, Some(&dict_src[..dl]), &format!("n={n} ninebit"))?;
                                one(c, &b, &cfg, &dict_src[100..100 + n], None, Some(&dict_src[..dl]), &format!("n={n} related"))?;
                            }
                            c.validated();
                            Ok(())
                        },
                    );
                }
            }
        }
    }
    // compressBound for the one-shot helpers
    for n in (0..=40).chain([126, 127, 128, 255, 256, 257, 511, 512, 513, 4096, 65535, 65536, 65537, 200_000]) {
        ctx.case(
            "compress-bound",
            || format!("compress / compress2 (levels -1..9) / compress_slice into exactly compressBound({n}) bytes, 4 patterns"),
            |c| unsafe {
                for (pname, data) in patterns(n, 16384) {
                    let bound = Rs::compressBound(n as c_ulong) as usize;
                    if zlib_rs::compress_bound(n) != bound {
                        return Err(format!("compress_bound({n}) = {} but compressBound = {bound}", zlib_rs::compress_bound(n)));
                    }
                    for level in -1..=9 {
                        let src = b.ain.put(&data, true);
                        let dst = b.aout.at_end(bound);
                        let mut dl: c_ulong = bound as _;
                        c.exec();
                        let r = if level == -1 { Rs::compress(dst, &mut dl, src, n as _) } else { Rs::compress2(dst, &mut dl, src, n as _, level) };
                        if r != Z_OK || dl as usize > bound {
                            return Err(format!("compress2(level {level}) of {n} bytes ({pname}) into compressBound = {bound} bytes returned {} (len {dl})", rc_name(r)));
                        }
                        let dst2 = std::slice::from_raw_parts_mut(b.aout.at_end(bound), bound);
                        let (o, rc) = zlib_rs::compress_slice(dst2, &data, zlib_rs::DeflateConfig { level, ..Default::default() });
                        if rc != zlib_rs::ReturnCode::Ok {
                            return Err(format!("compress_slice(level {level}) of {n} bytes ({pname}) into compress_bound bytes returned {rc:?} ({} bytes)", o.len()));
                        }
                        c.outcome(hash_u32s(&[n as u32, level as u32, (bound - dl as usize).min(64) as u32]));
                    }
                }
                c.validated();
                Ok(())
            },
        );
    }
}
