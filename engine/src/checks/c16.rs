//! C16 — the C API gives zlib-ng's status codes and data movement for any call sequence.

use crate::api::*;
use crate::checks::c06;
use crate::drv::*;
use crate::engine::*;
use crate::inputs::*;
use crate::mem::Arena;
use crate::optree::*;
use crate::refs::wrap::GzFields;

pub const INFO: CheckInfo = CheckInfo {
    prop: "C16",
    level: "model_checking",
    rule: "explicit enumeration of ALL programs up to a depth over the exported entry points with small argument domains, executed in lock-step on libz-rs-sys and on zlib-ng 2.3.3 (R6): compression side = C06's 47-operation alphabet incl. illegal init parameters (level -2/10, method 7, windowBits 7/16/32/47, memLevel 0/10, strategy 5/-1) and deflatePrime at any point; decompression side = {inflate (5 flush values x {all input, 1 byte, none} x {ample, 1, 0 bytes of room}), inflatePrime ((0,0),(3,5),(16,0x1234),(16,-1),(17,0),(-1,0)), inflateSync, inflateSyncPoint, inflateValidate(0/1), inflateUndermine(1/-1), inflateResetKeep, inflateReset, inflateReset2 (-15,31,47,7,0), inflateGetHeader, inflateSetDictionary (right/wrong), inflateGetDictionary, inflateCopy (continue on copy / end copy), inflateCodesUsed, inflateEnd} after inflateInit2 over {15,-15,31,47,0,-8,8,7,16,48,-16} on five data sets (valid zlib, valid gzip with header fields, raw, corrupt, zlib with FDICT, empty); one-shot helpers compress/compress2/uncompress/uncompress2 on size lattices; NULL stream / NULL buffer arguments where zlib defines the result. After every call: same return code, same input consumed, same output bytes produced; the process must never terminate. zlib-ng is run first in a forked child (pre-screen): programs on which the reference itself crashes are counted as skipped_ng_ub. Family params-rooms: deflateInit2 (10 levels x 5 strategies) ; deflate (5 sizes, no flush / sync flush) ; deflateParams (6 new settings) with 12 output rooms (0..=9, 64, ample) x {0, 5} new input bytes ; deflate(Z_FINISH), every call compared. Family tune-matrix: deflateTune with 26 C-int values (INT_MIN..INT_MAX) for each parameter and for all four x 9 levels x 2 strategies, then one deflate(Z_FINISH): statuses and compressed bytes. Family validate-values: inflateValidate with 11 C-int values before the first call / after 1, 2, 12, 40 bytes, on intact streams and streams with a wrong check value. Family prime-on-pending (zlib-rs alone): the pending buffer filled and partly drained in every combination, then deflatePrime repeated until it refuses. Family sync-odd-bits: inflateSync started with 8k + r buffered bits (first call x prime 0..=7 bits x next 0/8/16 bits, both orders) on three data sets. Not compared (as the property lists): totals after a dictionary request, inflateMark, dictionary length, message texts, inflateUndermine's own status, deflatePending/deflateBound values.",
    assumptions: &["zlib-ng 2.3.3 in compat mode is the reference", "decoding data whose back-references exceed the window announced to inflateInit2 is excluded (zlib-ng's small window makes its own verdict depend on chunking; zlib-rs always keeps 32 KiB, see C03)", "argument values outside the enumerated domains and deeper programs are not covered"],
    bound_quick: "compression: depth 3 over the full alphabet on 3 configs, depth 2 on 7 + all illegal configs depth 2; decompression: depth 3 over a 30-operation alphabet on 6 data sets x 3 init modes, depth 2 on the rest",
    bound_thorough: "compression depth 3 everywhere / depth 4 reduced alphabet; decompression depth 4 on the reduced alphabet",
};

#[derive(Clone, Copy, Debug, PartialEq, Eq)]
pub enum IOp {
    Inflate { flush: i32, inn: usize, room: usize },
    Prime(i32, i32),
    /// inflatePrime with the next `bits/8` bytes of the data set (the documented use: resuming inside a stream)
    PrimeData(i32),
    Sync,
    SyncPoint,
    Validate(i32),
    Undermine(i32),
    ResetKeep,
    Reset,
    Reset2(i32),
    GetHeader,
    /// inflateGetHeader with capture buffers of this capacity (a later call replaces an earlier one)
    GetHeaderCap(u32),
    SetDict(bool),
    GetDict,
    Copy,
    CopyEndCopy,
    CodesUsed,
    Mark,
    End,
}

impl IOp {
    fn tag(&self) -> String {
        match self {
            IOp::Inflate { flush, inn, room } => format!("inflate(f={flush},in={},room={})", if *inn == usize::MAX { "all".into() } else { inn.to_string() }, if *room == AMPLE { "ample".into() } else { room.to_string() }),
            other => format!("{other:?}").to_lowercase(),
        }
    }
}

fn iops_desc(ops: &[IOp]) -> String {
    ops.iter().map(|o| o.tag()).collect::<Vec<_>>().join(" ; ")
}

pub struct IEnv {
    ain: Arena,
    aout: Arena,
    aux: Arena,
    hdr: [Arena; 3],
}

/// serialised observations of one program (what C16 compares)
fn run_iops<Zx: Z>(wb: i32, data: &[u8], dict: &[u8], ops: &[IOp], env: &IEnv, at_start: bool, fill: u8) -> Result<Vec<u8>, String> {
    unsafe {
        let mut log: Vec<u8> = vec![];
        let push = |log: &mut Vec<u8>, tag: u8, ret: i64, din: u32, dout: u32, out: &[u8]| {
            log.push(tag);
            log.extend_from_slice(&ret.to_le_bytes());
            log.extend_from_slice(&din.to_le_bytes());
            log.extend_from_slice(&dout.to_le_bytes());
            log.extend_from_slice(&(out.len() as u32).to_le_bytes());
            log.extend_from_slice(out);
        };
        // every allocation pre-filled: whatever either library reads before writing it is the same in every execution
        let mut s = Strm::filled(fill);
        let r = Zx::inflateInit2_(s.p(), wb, Zx::zlibVersion(), STREAM_SIZE);
        push(&mut log, 0xF0, r as i64, 0, 0, &[]);
        if r != Z_OK {
            let e = Zx::inflateEnd(s.p());
            push(&mut log, 0xF1, e as i64, 0, 0, &[]);
            return Ok(log);
        }
        let mut live = true;
        let mut pos = 0usize;
        let mut head = Box::new(zeroed_header());
        let mut others: Vec<Strm> = vec![];
        for (oi, op) in ops.iter().enumerate() {
            match *op {
                IOp::Inflate { flush, inn, room } => {
                    let take = if inn == usize::MAX { data.len() - pos } else { inn.min(data.len() - pos) };
                    let room_n = if room == AMPLE { 70000 } else { room };
                    let chunk = &data[pos..pos + take];
                    let pin = if at_start {
                        let p = env.ain.at_start(take);
                        std::ptr::copy_nonoverlapping(chunk.as_ptr(), p, take);
                        p
                    } else {
                        env.ain.put(chunk, true)
                    };
                    let pout = env.aout.at_end(room_n);
                    s.z.next_in = pin;
                    s.z.avail_in = take as u32;
                    s.z.next_out = pout;
                    s.z.avail_out = room_n as u32;
                    let ret = Zx::inflate(s.p(), flush);
                    if live {
                        let din = (s.z.next_in as usize).wrapping_sub(pin as usize);
                        let dout = (s.z.next_out as usize).wrapping_sub(pout as usize);
                        if din > take || dout > room_n {
                            return Err(format!("{}: op {oi} {}: cursor left its buffer: next_in moved by {} (of {take}), next_out by {} (of {room_n})", Zx::NAME, op.tag(), din as isize, dout as isize));
                        }
                        pos += din;
                        push(&mut log, 1, ret as i64, din as u32, dout as u32, std::slice::from_raw_parts(pout, dout));
                    } else {
                        push(&mut log, 1, ret as i64, 0, 0, &[]);
                    }
                }
                IOp::Prime(b, v) => push(&mut log, 2, Zx::inflatePrime(s.p(), b, v) as i64, 0, 0, &[]),
                IOp::PrimeData(b) => {
                    let nb = (b / 8) as usize;
                    if pos + nb <= data.len() {
                        let mut v = 0i32;
                        for k in 0..nb {
                            v |= (data[pos + k] as i32) << (8 * k);
                        }
                        let r = Zx::inflatePrime(s.p(), b, v);
                        if r == Z_OK {
                            pos += nb;
                        }
                        push(&mut log, 18, r as i64, 0, 0, &[]);
                    } else {
                        push(&mut log, 18, 99, 0, 0, &[]);
                    }
                }
                IOp::Sync => {
                    let take = (data.len() - pos).min(64);
                    let chunk = &data[pos..pos + take];
                    let pin = env.ain.put(chunk, true);
                    s.z.next_in = pin;
                    s.z.avail_in = take as u32;
                    let ret = Zx::inflateSync(s.p());
                    if live {
                        let din = (s.z.next_in as usize).wrapping_sub(pin as usize);
                        if din > take {
                            return Err(format!("{}: inflateSync moved next_in out of the buffer", Zx::NAME));
                        }
                        pos += din;
                        push(&mut log, 3, ret as i64, din as u32, 0, &[]);
                    } else {
                        push(&mut log, 3, ret as i64, 0, 0, &[]);
                    }
                }
                IOp::SyncPoint => push(&mut log, 4, Zx::inflateSyncPoint(s.p()) as i64, 0, 0, &[]),
                IOp::Validate(c) => push(&mut log, 5, Zx::inflateValidate(s.p(), c) as i64, 0, 0, &[]),
                IOp::Undermine(v) => {
                    // status not compared (the pinned suite asserts Z_OK for zlib-rs, zlib-ng answers Z_DATA_ERROR)
                    let _ = Zx::inflateUndermine(s.p(), v);
                    push(&mut log, 6, 0, 0, 0, &[]);
                }
                IOp::ResetKeep => {
                    let r = Zx::inflateResetKeep(s.p());
                    // like after inflateReset the decoder expects the start of a stream: feed the data set again
                    if r == Z_OK {
                        pos = 0;
                    }
                    push(&mut log, 7, r as i64, 0, 0, &[]);
                }
                IOp::Reset => {
                    let r = Zx::inflateReset(s.p());
                    if r == Z_OK {
                        pos = 0;
                    }
                    push(&mut log, 8, r as i64, 0, 0, &[]);
                }
                IOp::Reset2(w) => {
                    let r = Zx::inflateReset2(s.p(), w);
                    if r == Z_OK {
                        pos = 0;
                    }
                    push(&mut log, 9, r as i64, 0, 0, &[]);
                }
                IOp::GetHeader => {
                    head.extra = env.hdr[0].at_end(8);
                    head.extra_max = 8;
                    head.name = env.hdr[1].at_end(8);
                    head.name_max = 8;
                    head.comment = env.hdr[2].at_end(8);
                    head.comm_max = 8;
                    push(&mut log, 10, Zx::inflateGetHeader(s.p(), &mut *head) as i64, 0, 0, &[]);
                }
                IOp::GetHeaderCap(n) => {
                    head.extra = env.hdr[0].at_end(n as usize);
                    head.extra_max = n;
                    head.name = env.hdr[1].at_end(n as usize);
                    head.name_max = n;
                    head.comment = env.hdr[2].at_end(n as usize);
                    head.comm_max = n;
                    push(&mut log, 19, Zx::inflateGetHeader(s.p(), &mut *head) as i64, 0, 0, &[]);
                }
                IOp::SetDict(right) => {
                    let d: Vec<u8> = if right { dict.to_vec() } else { dict.iter().map(|b| b ^ 1).collect() };
                    let p = env.aux.put(&d, true);
                    push(&mut log, 11, Zx::inflateSetDictionary(s.p(), p, d.len() as u32) as i64, 0, 0, &[]);
                }
                IOp::GetDict => {
                    let buf = env.aux.at_end(32768 + 64);
                    let mut len: u32 = 0;
                    let r = Zx::inflateGetDictionary(s.p(), buf, &mut len);
                    if len > 32768 {
                        return Err(format!("{}: inflateGetDictionary length {len}", Zx::NAME));
                    }
                    push(&mut log, 12, r as i64, 0, 0, &[]);
                }
                IOp::Copy | IOp::CopyEndCopy => {
                    let mut d = Strm::plain();
                    let r = Zx::inflateCopy(d.p(), s.p());
                    push(&mut log, 13, r as i64, 0, 0, &[]);
                    if r == Z_OK {
                        if *op == IOp::Copy {
                            std::mem::swap(&mut d.z, &mut s.z);
                        }
                        let e = Zx::inflateEnd(d.p());
                        push(&mut log, 14, e as i64, 0, 0, &[]);
                    }
                    others.push(d);
                }
                IOp::CodesUsed => {
                    let v = Zx::inflateCodesUsed(s.p());
                    // the number of table entries is an implementation detail unless it signals an invalid stream
                    push(&mut log, 15, if v == std::ffi::c_ulong::MAX { -1 } else { 0 }, 0, 0, &[]);
                }
                IOp::Mark => {
                    let _ = Zx::inflateMark(s.p());
                    push(&mut log, 16, 0, 0, 0, &[]);
                }
                IOp::End => {
                    let e = Zx::inflateEnd(s.p());
                    push(&mut log, 17, e as i64, 0, 0, &[]);
                    if e == Z_OK {
                        live = false;
                    }
                }
            }
        }
        if live {
            // a captured header must stay readable until the stream ends
            if head.done == 1 || head.done == -1 || head.done == 0 {
                log.push(0xE0);
            } else {
                return Err(format!("{}: head.done = {}", Zx::NAME, head.done));
            }
            let e = Zx::inflateEnd(s.p());
            push(&mut log, 0xF1, e as i64, 0, 0, &[]);
        }
        drop(others);
        Ok(log)
    }
}

/// abstract (call, status) states of one program for the evidence
fn record_log(c: &mut Case, log: &[u8]) {
    let mut p = 0;
    let mut prev: Option<u64> = None;
    while p + 21 <= log.len() {
        let tag = log[p];
        if tag == 0xE0 {
            p += 1;
            continue;
        }
        let ret = i64::from_le_bytes(log[p + 1..p + 9].try_into().unwrap());
        let din = u32::from_le_bytes(log[p + 9..p + 13].try_into().unwrap());
        let dout = u32::from_le_bytes(log[p + 13..p + 17].try_into().unwrap());
        let n = u32::from_le_bytes(log[p + 17..p + 21].try_into().unwrap()) as usize;
        let h = hash_u32s(&[tag as u32, ret as u32, (din > 0) as u32, (dout > 0) as u32]);
        c.state(h);
        if let Some(q) = prev {
            c.trans(q, h);
        }
        prev = Some(h);
        p += 21 + n;
    }
}

fn decode_log(log: &[u8]) -> String {
    let mut s = String::new();
    let mut p = 0;
    while p < log.len() {
        let tag = log[p];
        if tag == 0xE0 {
            p += 1;
            continue;
        }
        if p + 25 > log.len() {
            break;
        }
        let ret = i64::from_le_bytes(log[p + 1..p + 9].try_into().unwrap());
        let din = u32::from_le_bytes(log[p + 9..p + 13].try_into().unwrap());
        let dout = u32::from_le_bytes(log[p + 13..p + 17].try_into().unwrap());
        let n = u32::from_le_bytes(log[p + 17..p + 21].try_into().unwrap()) as usize;
        let h = hash_bytes(&log[p + 21..p + 21 + n]);
        s.push_str(&format!("[op{tag:#x} ret={ret} in={din} out={dout} h={:08x}] ", h as u32));
        p += 21 + n;
    }
    s
}

/// run `f` (which exercises the reference implementation) in a forked child; None if the child died
fn in_child(f: impl FnOnce() -> Vec<u8>) -> Option<Vec<u8>> {
    unsafe {
        let mut fds = [0i32; 2];
        if libc::pipe(fds.as_mut_ptr()) != 0 {
            return Some(f());
        }
        let pid = libc::fork();
        if pid < 0 {
            libc::close(fds[0]);
            libc::close(fds[1]);
            return Some(f());
        }
        if pid == 0 {
            libc::close(fds[0]);
            let v = f();
            let mut off = 0;
            while off < v.len() {
                let n = libc::write(fds[1], v[off..].as_ptr() as *const _, v.len() - off);
                if n <= 0 {
                    break;
                }
                off += n as usize;
            }
            libc::_exit(0);
        }
        libc::close(fds[1]);
        let mut out = vec![];
        let mut buf = [0u8; 65536];
        loop {
            let n = libc::read(fds[0], buf.as_mut_ptr() as *mut _, buf.len());
            if n <= 0 {
                break;
            }
            out.extend_from_slice(&buf[..n as usize]);
        }
        libc::close(fds[0]);
        let mut st = 0;
        libc::waitpid(pid, &mut st, 0);
        if libc::WIFEXITED(st) && libc::WEXITSTATUS(st) == 0 {
            Some(out)
        } else {
            None
        }
    }
}

fn ser_drun(r: &Result<DRun, String>) -> Vec<u8> {
    match r {
        Err(e) => {
            let mut v = vec![0xEE];
            v.extend_from_slice(e.as_bytes());
            v
        }
        Ok(r) => {
            let mut v = vec![0x01];
            for o in &r.obs {
                v.extend_from_slice(&o.ret.to_le_bytes());
                v.extend_from_slice(&o.din.to_le_bytes());
                v.extend_from_slice(&o.dout.to_le_bytes());
                v.extend_from_slice(&(o.out.len() as u32).to_le_bytes());
                v.extend_from_slice(&o.out);
            }
            v.push(r.tail_ended as u8);
            v.extend_from_slice(&(r.tail_calls as u32).to_le_bytes());
            v.extend_from_slice(&(r.total_out.len() as u32).to_le_bytes());
            v.extend_from_slice(&hash_bytes(&r.total_out).to_le_bytes());
            v
        }
    }
}

fn drun_summary(r: &Result<DRun, String>) -> String {
    match r {
        Err(e) => format!("ERR {e}"),
        Ok(r) => format!("{:?} tail_calls={} ended={} total_out={}", r.obs.iter().map(|o| (o.ret, o.din, o.dout, hash_bytes(&o.out) as u16)).collect::<Vec<_>>(), r.tail_calls, r.tail_ended, r.total_out.len()),
    }
}

fn deflate_side(ctx: &mut Ctx, env: &OpEnv) {
    let quick = ctx.quick();
    // the gzip header replaced while one of its fields is only partly written (finding D20): every pair of
    // (header being written, header put in its place) x how far the first call got; zlib-rs alone, must not abort
    for &(level, method, wb, ml, st) in &[(2, 8, 31, 1, 3), (6, 8, 31, 1, 0), (1, 8, 31, 2, 0)] {
        for a in [1u8, 3, 4] {
            for b in [0u8, 1, 2, 3, 4] {
                for room in [1usize, 5, 12, 30, 100, 300, 511, 600] {
                    for flush in [Z_NO_FLUSH, Z_SYNC_FLUSH] {
                        let ops = [DOp::SetHeader(a), DOp::Deflate { flush, inn: 0, room }, DOp::SetHeader(b), DOp::Deflate { flush: Z_NO_FLUSH, inn: 1, room: 7 }];
                        ctx.case(
                            "deflate-header-replaced-mid-field",
                            || format!("deflateInit2(level={level}, method={method}, windowBits={wb}, memLevel={ml}, strategy={st}) ; {} ; tail finish(room=64)", dops_desc(&ops)),
                            |c| {
                                c.exec();
                                c.nontrivial();
                                let r = run_dops::<Rs>(level, method, wb, ml, st, &ops, env, false, false, 64, false, None)?;
                                c.outcome(hash_bytes(&r.total_out));
                                c.validated();
                                Ok(())
                            },
                        );
                    }
                }
            }
        }
    }
    let full = c06::alphabet(true);
    let small = c06::alphabet(false);
    let mut cfgs = c06::legal_configs();
    let n_legal = cfgs.len();
    cfgs.extend(c06::illegal_configs());
    for (ci, &(level, method, wb, ml, st)) in cfgs.iter().enumerate() {
        let legal = ci < n_legal;
        let plan: Vec<(&Vec<DOp>, usize)> = if !legal {
            vec![(&small, 2)]
        } else if quick {
            vec![(&full, if ci < 3 { 3 } else { 2 })]
        } else {
            vec![(&full, 3), (&small, 4)]
        };
        for (alpha, depth) in plan {
            let mut k = 0usize;
            sequences(alpha, depth, |ops| {
                k += 1;
                let tail_room = if k % 2 == 0 { 7 } else { 64 };
                ctx.case(
                    "deflate-programs",
                    || format!("deflateInit2(level={level}, method={method}, windowBits={wb}, memLevel={ml}, strategy={st}) ; {} ; tail finish(room={tail_room})", dops_desc(ops)),
                    |c| {
                        c.exec();
                        if !ops.is_empty() {
                            c.nontrivial();
                        }
                        let a = run_dops_ex::<Rs>(level, method, wb, ml, st, ops, env, false, false, tail_room, false, true, None);
                        if a.as_ref().map_or(false, |r| r.resetkeep_dirty) {
                            // deflateResetKeep in the middle of a stream: only safety of zlib-rs is judged (done by the run above)
                            c.count("not_compared_resetkeep_mid_stream", 1);
                            return a.map(|_| ());
                        }
                        // deflateSetHeader after the first deflate call of a stream breaks its documented precondition and makes
                        // the reference read past the replaced field: only "never terminates the process" is judged (above)
                        {
                            let mut called = false;
                            let mut misuse = false;
                            for o in ops {
                                match o {
                                    DOp::Deflate { .. } | DOp::Params(..) => called = true,
                                    DOp::Reset => called = false,
                                    DOp::SetHeader(_) if called => misuse = true,
                                    _ => {}
                                }
                            }
                            if misuse {
                                c.count("not_compared_sethdr_after_deflate", 1);
                                return a.map(|_| ());
                            }
                        }
                        let cut = a.as_ref().ok().and_then(|r| r.f2_cut_at);
                        if cut.is_some() {
                            c.count("programs_cut_at_known_finding_F2", 1);
                        }
                        let sa = ser_drun(&a);
                        c.exec();
                        // programs that prime are pre-screened in a child: zlib-ng overflows its pending buffer (C-level UB)
                        let risky = ops.iter().any(|o| matches!(o, DOp::Prime(..)));
                        if risky {
                            // the property's "never terminates the process" also covers priming while output is pending,
                            // where the reference's bytes are not comparable: run the subject alone, unrestricted
                            c.exec();
                            run_dops::<Rs>(level, method, wb, ml, st, ops, env, false, false, tail_room, false, None)?;
                        }
                        let sb = if risky {
                            match in_child(|| ser_drun(&run_dops_full::<Ng>(level, method, wb, ml, st, ops, env, false, false, tail_room, false, true, cut, None))) {
                                Some(v) => v,
                                None => {
                                    c.count("skipped_ng_ub", 1);
                                    return a.map(|_| ()).map_err(|e| format!("(zlib-ng crashed on this program) {e}"));
                                }
                            }
                        } else {
                            ser_drun(&run_dops_full::<Ng>(level, method, wb, ml, st, ops, env, false, false, tail_room, false, true, cut, None))
                        };
                        c.outcome(hash_bytes(&sa));
                        if let Ok(ra) = &a {
                            let mut prev: Option<u64> = None;
                            for (k, o) in ra.obs.iter().enumerate() {
                                let kind = if k == 0 { 99 } else { ops.get(k - 1).map_or(98, |op| hash_bytes(op.tag().split('(').next().unwrap_or("").as_bytes()) as u32) };
                                let h = hash_u32s(&[kind, o.ret as u32, (o.din > 0) as u32, (o.dout > 0) as u32]);
                                c.state(h);
                                if let Some(q) = prev {
                                    c.trans(q, h);
                                }
                                prev = Some(h);
                            }
                        }
                        if sa != sb {
                            if sb.first() == Some(&0xEE) {
                                // the reference itself breaks an API obligation on this program (e.g. F2): only zlib-rs is judged
                                c.count("reference_not_comparable", 1);
                                if let Err(e) = &a {
                                    if !e.contains("deflateResetKeep with unconsumed lookahead") {
                                        return Err(e.clone());
                                    }
                                }
                                return Ok(());
                            }
                            let b = run_dops_full::<Ng>(level, method, wb, ml, st, ops, env, false, false, tail_room, false, true, cut, None);
                            // after deflateReset the reference (zlib-ng 2.3.3) can emit a stream without its first block header
                            // (block_open of deflate_quick survives the reset): if the reference's own final stream does not
                            // decode while zlib-rs's does, the reference is not an oracle for this program
                            if let (Ok(ra), Ok(rb)) = (&a, &b) {
                                if !rb.reset_at.is_empty() {
                                    let wrap = if wb < 0 { Wrap::Raw } else if wb > 15 { Wrap::Gzip } else { Wrap::Zlib };
                                    // (a stream that has lost its first block header may still happen to decode - to other
                                    // bytes: the plaintext after the reset is a contiguous piece of the input source, so a
                                    // decode that is not such a piece is as wrong as one that fails)
                                    let is_piece = |out: &[u8]| out.is_empty() || {
                                        let mut hay = env.data.clone();
                                        hay.extend_from_slice(&env.data[..env.data.len().min(out.len())]);
                                        hay.windows(out.len()).any(|w| w == out)
                                    };
                                    // every stream the reference started after a reset - finished or not (then: what its
                                    // bytes so far decode to) - must be a valid (prefix of a) stream carrying such a piece
                                    let plain = |seg: &[u8], complete: bool| match crate::checks::c01::decode_ref(wrap, seg) {
                                        crate::refs::wrap::Wrapped::Ok { out, .. } => Some(out),
                                        crate::refs::wrap::Wrapped::Short { out } if !complete => Some(out),
                                        _ => None,
                                    };
                                    let mut ok_b = true;
                                    for (i, &from) in rb.reset_at.iter().enumerate() {
                                        let last = i + 1 == rb.reset_at.len();
                                        let to = rb.reset_at.get(i + 1).copied().unwrap_or(rb.total_out.len());
                                        // the last stream must be complete when the run reached Z_STREAM_END
                                        if from <= to && to <= rb.total_out.len() && !plain(&rb.total_out[from..to], last && rb.finished).map_or(false, |o| is_piece(&o)) {
                                            ok_b = false;
                                        }
                                    }
                                    // a stream that was reset or ended again after only a few bytes cannot be judged from
                                    // those bytes: let the reference finish it instead (the same program cut before the
                                    // next reset / end, then the Finish tail) and look at what it then wrote
                                    if ok_b && !risky {
                                        for (i, _) in ops.iter().enumerate().filter(|(_, o)| matches!(o, DOp::Reset)) {
                                            let j = ops[i + 1..].iter().position(|o| matches!(o, DOp::Reset | DOp::ResetKeep | DOp::End | DOp::Copy | DOp::CopyEndCopy)).map_or(ops.len(), |k| i + 1 + k);
                                            if j == ops.len() {
                                                continue;
                                            }
                                            if let Ok(rc) = run_dops_full::<Ng>(level, method, wb, ml, st, &ops[..j], env, false, false, 64, false, true, None, None) {
                                                if rc.finished {
                                                    if let Some(&from) = rc.reset_at.last() {
                                                        if from <= rc.total_out.len() && !plain(&rc.total_out[from..], true).map_or(false, |o| is_piece(&o)) {
                                                            ok_b = false;
                                                        }
                                                    }
                                                }
                                            }
                                        }
                                    }
                                    if !ok_b {
                                        c.count("not_compared_reference_emits_invalid_stream_after_reset", 1);
                                        return Ok(());
                                    }
                                }
                            }
                            return Err(format!("status codes / data movement differ from zlib-ng: zlib-rs {} ; zlib-ng {}", drun_summary(&a), drun_summary(&b)));
                        }
                        c.validated();
                        Ok(())
                    },
                );
            });
        }
    }
}

pub struct DataSet {
    pub name: &'static str,
    pub bytes: Vec<u8>,
    pub dict: Vec<u8>,
}

pub fn datasets() -> Vec<DataSet> {
    let env = Env::new();
    let plain = text(4, 400);
    let mk = |wrap: Wrap, gz: Option<&GzFields>, dict: Option<&[u8]>| -> Vec<u8> {
        let cfg = DCfg { level: 6, strategy: 0, wbits: 15, mem_level: 8, wrap };
        // two blocks so that sync points / block boundaries exist
        let sched = DSched { steps: vec![DStep::Feed { n: 150, room: AMPLE, flush: Z_FULL_FLUSH }], tail_room: AMPLE };
        run_deflate::<Ng>(&cfg, &plain, &sched, &env, &DExtra { gz, dict, ..Default::default() }, None).expect("reference deflate").out
    };
    let dict = text(9, 100);
    let gzf = GzFields { text: true, mtime: 5, os: 3, extra: Some(vec![1, 2, 3]), name: Some(b"nm".to_vec()), comment: Some(b"c".to_vec()), hcrc: true, ..Default::default() };
    let z = mk(Wrap::Zlib, None, None);
    let mut corrupt = z.clone();
    let k = corrupt.len() / 2;
    corrupt[k] ^= 0x40;
    vec![
        DataSet { name: "zlib", bytes: z, dict: dict.clone() },
        DataSet { name: "gzip+header", bytes: mk(Wrap::Gzip, Some(&gzf), None), dict: dict.clone() },
        DataSet { name: "raw", bytes: mk(Wrap::Raw, None, None), dict: dict.clone() },
        DataSet { name: "corrupt-zlib", bytes: corrupt, dict: dict.clone() },
        DataSet { name: "zlib+fdict", bytes: mk(Wrap::Zlib, None, Some(&dict)), dict: dict.clone() },
        // fixed block: 'A', then a match of length 3 at distance 1000 (nothing there): invalid distance too far back
        DataSet { name: "raw-too-far", bytes: vec![0x73, 0x04, 0xe6, 0x73, 0x00], dict: dict.clone() },
        // a longer raw stream (fast path: >= 15 input bytes and >= 260 bytes of output room stay available)
        DataSet { name: "raw-long", bytes: { let cfg = DCfg { level: 6, strategy: 0, wbits: 15, mem_level: 8, wrap: Wrap::Raw }; run_deflate::<Ng>(&cfg, &text(8, 3000), &DSched::one_shot(), &env, &DExtra::default(), None).expect("reference deflate").out }, dict: dict.clone() },
        // a complete 4-byte stream followed by trailing bytes: after priming 32 bits the whole stream sits in the bit buffer
        DataSet { name: "raw-short+tail", bytes: { let mut b = crate::refs::builder::build(&[crate::refs::builder::Plan::Fixed(vec![crate::refs::builder::Tok::Lit(b'a'), crate::refs::builder::Tok::Lit(b'b')])]); b.extend_from_slice(&[0x55; 24]); b }, dict: dict.clone() },
        // gzip with the minimal 10-byte header
        DataSet { name: "gzip-plain", bytes: mk(Wrap::Gzip, None, None), dict: dict.clone() },
        // sync markers everywhere: two empty stored blocks, a final stored block "hi", trailing marker-like bytes. Fed a
        // byte or two at a time (or primed) the bit buffer holds whole bytes of a marker when inflateSync starts looking
        DataSet { name: "raw-markers", bytes: vec![0x00, 0x00, 0x00, 0xff, 0xff, 0x00, 0x00, 0x00, 0xff, 0xff, 0x01, 0x02, 0x00, 0xfd, 0xff, b'h', b'i', 0x00, 0x00, 0xff, 0xff, 0x00], dict: dict.clone() },
        DataSet { name: "empty", bytes: vec![], dict },
    ]
}

fn inflate_alphabet(full: bool) -> Vec<IOp> {
    let mut v = vec![];
    let shapes: &[(usize, usize)] = if full { &[(usize::MAX, AMPLE), (1, AMPLE), (usize::MAX, 1), (0, AMPLE), (usize::MAX, 0), (20, 30)] } else { &[(usize::MAX, AMPLE), (20, 30), (usize::MAX, 1)] };
    for flush in [Z_NO_FLUSH, Z_SYNC_FLUSH, Z_FINISH, Z_BLOCK, Z_TREES] {
        for &(inn, room) in shapes {
            if !full && (flush == Z_SYNC_FLUSH || flush == Z_TREES) && inn != usize::MAX {
                continue;
            }
            v.push(IOp::Inflate { flush, inn, room });
        }
    }
    v.extend([IOp::Prime(3, 5), IOp::Prime(16, 0x1234), IOp::PrimeData(16), IOp::PrimeData(8), IOp::Sync, IOp::Validate(0), IOp::Validate(1), IOp::Reset, IOp::Reset2(-15), IOp::SetDict(true), IOp::Copy, IOp::End, IOp::ResetKeep, IOp::GetHeader]);
    if full {
        v.extend([IOp::Prime(0, 0), IOp::Prime(16, -1), IOp::Prime(17, 0), IOp::Prime(-1, 0), IOp::SyncPoint, IOp::Undermine(1), IOp::Undermine(-1), IOp::Reset2(31), IOp::Reset2(47), IOp::Reset2(7), IOp::Reset2(0), IOp::SetDict(false), IOp::GetDict, IOp::CopyEndCopy, IOp::CodesUsed, IOp::Mark, IOp::Inflate { flush: -1, inn: usize::MAX, room: AMPLE }, IOp::Inflate { flush: 7, inn: usize::MAX, room: AMPLE }]);
    }
    v
}

fn inflate_alphabet_tiny() -> Vec<IOp> {
    vec![
        IOp::Inflate { flush: Z_NO_FLUSH, inn: usize::MAX, room: AMPLE },
        IOp::Inflate { flush: Z_NO_FLUSH, inn: 20, room: 30 },
        IOp::Inflate { flush: Z_BLOCK, inn: usize::MAX, room: AMPLE },
        IOp::Validate(0),
        IOp::Validate(1),
        IOp::Sync,
        IOp::PrimeData(16),
        IOp::Reset,
        IOp::Copy,
    ]
}

fn inflate_alphabet_micro() -> Vec<IOp> {
    vec![
        IOp::Inflate { flush: Z_NO_FLUSH, inn: 1, room: AMPLE },
        IOp::Inflate { flush: Z_NO_FLUSH, inn: 2, room: AMPLE },
        IOp::Inflate { flush: Z_NO_FLUSH, inn: 3, room: AMPLE },
        IOp::Inflate { flush: Z_NO_FLUSH, inn: usize::MAX, room: AMPLE },
        IOp::PrimeData(8),
        IOp::PrimeData(16),
        IOp::Sync,
        IOp::Reset,
    ]
}

fn inflate_side(ctx: &mut Ctx) {
    let quick = ctx.quick();
    let env = IEnv { ain: Arena::new(1 << 16), aout: Arena::new(1 << 17), aux: Arena::new(1 << 16), hdr: [Arena::new(4096), Arena::new(4096), Arena::new(4096)] };
    // the capture request replaced while a header field is only partly captured (the mirror of finding D20): every
    // pair of capacities x every cut of the header; zlib stops copying when the new buffer is already "full"
    {
        let gzf = GzFields { text: true, mtime: 9, os: 3, extra: Some((1..=20).collect()), name: Some((0..40).map(|i| b'a' + i % 26).collect()), comment: Some((0..30).map(|i| b'A' + i % 26).collect()), hcrc: true, ..Default::default() };
        let denv = Env::new();
        let cfg = DCfg { level: 6, strategy: 0, wbits: 15, mem_level: 8, wrap: Wrap::Gzip };
        let z = run_deflate::<Ng>(&cfg, &text(4, 200), &DSched::one_shot(), &denv, &DExtra { gz: Some(&gzf), ..Default::default() }, None).expect("reference deflate").out;
        let hl = gzf.write().len();
        for a in [64u32, 8, 0] {
            for b in [64u32, 8, 3, 0] {
                for cut in 1..=hl + 2 {
                    let ops = [IOp::GetHeaderCap(a), IOp::Inflate { flush: Z_NO_FLUSH, inn: cut, room: AMPLE }, IOp::GetHeaderCap(b), IOp::Inflate { flush: Z_NO_FLUSH, inn: usize::MAX, room: AMPLE }];
                    ctx.case(
                        "inflate-header-capture-replaced",
                        || format!("data=gzip with 20-byte extra, 40-byte name, 30-byte comment ({} bytes) inflateInit2(31) ; {}", z.len(), iops_desc(&ops)),
                        |c| {
                            c.exec();
                            c.nontrivial();
                            let ra = run_iops::<Rs>(31, &z, &[], &ops, &env, false, 0xA5)?;
                            c.exec();
                            let rb = run_iops::<Ng>(31, &z, &[], &ops, &env, false, 0x00)?;
                            if ra != rb {
                                return Err(format!("status codes / data movement differ from zlib-ng: zlib-rs {} ; zlib-ng {}", decode_log(&ra), decode_log(&rb)));
                            }
                            c.outcome(hash_bytes(&ra));
                            c.validated();
                            Ok(())
                        },
                    );
                }
            }
        }
    }
    let sets = datasets();
    let full = inflate_alphabet(true);
    let small = inflate_alphabet(false);
    let tiny = inflate_alphabet_tiny();
    let micro = inflate_alphabet_micro();
    let inits: Vec<i32> = vec![15, -15, 31, 47, 0, -8, 8, 7, 16, 48, -16, 32];
    for ds in &sets {
        for (ii, &wb) in inits.iter().enumerate() {
            // the matching init mode gets the deepest exploration
            let matching = matches!((ds.name, wb), ("zlib", 15) | ("zlib", 47) | ("gzip+header", 31) | ("gzip+header", 47) | ("raw", -15) | ("corrupt-zlib", 15) | ("zlib+fdict", 15) | ("empty", 47) | ("raw-too-far", -15) | ("raw-long", -15) | ("raw-short+tail", -15) | ("gzip-plain", 31));
            let plan: Vec<(&Vec<IOp>, usize)> = if ds.name == "raw-markers" {
                if wb == -15 { vec![(&micro, if quick { 5 } else { 6 }), (&small, 2)] } else { vec![] }
            } else if matching {
                if quick {
                    vec![(&small, 3), (&full, 2), (&tiny, if ds.name.starts_with("gzip") { 5 } else { 4 })]
                } else {
                    vec![(&small, 4), (&full, 3), (&tiny, 6)]
                }
            } else if ii < 6 {
                vec![(&full, if quick { 1 } else { 2 })]
            } else {
                vec![(&small, 1)]
            };
            for (alpha, depth) in plan {
                let mut k = 0usize;
                sequences(alpha, depth, |ops| {
                    k += 1;
                    let at_start = k % 2 == 0;
                    ctx.case(
                        "inflate-programs",
                        || format!("data={} ({} bytes) inflateInit2({wb}) ; {} ; input placement {}", ds.name, ds.bytes.len(), iops_desc(ops), if at_start { "start-guarded" } else { "end-guarded" }),
                        |c| {
                            c.exec();
                            if !ops.is_empty() {
                                c.nontrivial();
                            }
                            // subject first: a crash here is attributed to zlib-rs by the explorer
                            let a = run_iops::<Rs>(wb, &ds.bytes, &ds.dict, ops, &env, at_start, 0xA5)?;
                            // zlib-ng 2.3.3 starts the data CRC at the end of a gzip header only while validation is on
                            // (zlib itself resets it unconditionally): with inflateValidate(0) .. header .. inflateValidate(1)
                            // it rejects valid streams. The reference is self-inconsistent there; only safety is judged.
                            if ds.name.starts_with("gzip") {
                                let off = ops.iter().position(|o| *o == IOp::Validate(0));
                                let on = ops.iter().rposition(|o| *o == IOp::Validate(1));
                                if let (Some(i), Some(j)) = (off, on) {
                                    if i < j && ops[i..j].iter().any(|o| matches!(o, IOp::Inflate { .. })) {
                                        c.count("not_compared_reference_self_inconsistent_validate_toggle", 1);
                                        return Ok(());
                                    }
                                }
                            }
                            c.exec();
                            let ng_run_fill = |fill: u8| match run_iops::<Ng>(wb, &ds.bytes, &ds.dict, ops, &env, at_start, fill) {
                                Ok(v) => v,
                                Err(e) => {
                                    let mut v = vec![0xEE];
                                    v.extend_from_slice(e.as_bytes());
                                    v
                                }
                            };
                            let ng_run = || ng_run_fill(0x00);
                            // pre-screen in a child the programs on which the reference is known to have C-level UB
                            // (priming more bits than a later fast-path run consumes moves its cursor in front of the buffer)
                            let risky = ops.iter().any(|o| matches!(o, IOp::Prime(..) | IOp::PrimeData(..) | IOp::Undermine(..)));
                            let b = if risky {
                                match in_child(ng_run) {
                                    Some(b) => b,
                                    None => {
                                        c.count("skipped_ng_ub", 1);
                                        return Ok(());
                                    }
                                }
                            } else {
                                ng_run()
                            };
                            if b.first() == Some(&0xEE) {
                                c.count("reference_not_comparable", 1);
                                return Ok(());
                            }
                            c.outcome(hash_bytes(&a));
                            record_log(c, &a);
                            if a != b {
                                // zlib-ng decodes from an arbitrary sync point through a window it never filled: its result then
                                // depends on the contents of freshly allocated memory, and it is not an oracle for this program
                                if !risky {
                                    c.exec();
                                    let b2 = ng_run_fill(0xFF);
                                    if b2 != b {
                                        c.count("not_compared_reference_depends_on_uninitialised_memory", 1);
                                        c.exec();
                                        let a2 = run_iops::<Rs>(wb, &ds.bytes, &ds.dict, ops, &env, at_start, 0x00)?;
                                        if a2 != a {
                                            return Err(format!("zlib-rs's results depend on the contents of freshly allocated memory: {} with 0xA5-filled allocations, {} with zeroed ones", decode_log(&a), decode_log(&a2)));
                                        }
                                        return Ok(());
                                    }
                                }
                                return Err(format!("status codes / data movement differ from zlib-ng: zlib-rs {} ; zlib-ng {}", decode_log(&a), decode_log(&b)));
                            }
                            c.validated();
                            Ok(())
                        },
                    );
                });
            }
        }
    }
}

fn one_shots(ctx: &mut Ctx) {
    let ain = Arena::new(1 << 18);
    let aout = Arena::new(1 << 19);
    let data = text(6, 70000);
    for n in [0usize, 1, 2, 100, 5000, 66000] {
        for level in [-2i32, -1, 0, 1, 6, 9, 10] {
            for room_kind in 0..5 {
                ctx.case(
                    "one-shot",
                    || format!("compress2/compress/uncompress/uncompress2 n={n} level={level} room_kind={room_kind}"),
                    |c| unsafe {
                        let src = ain.put(&data[..n], true);
                        let bound_rs = Rs::compressBound(n as _) as usize;
                        let bound_ng = Ng::compressBound(n as _) as usize;
                        let room = match room_kind {
                            0 => 0,
                            1 => 1,
                            2 => bound_rs.min(bound_ng) / 2,
                            3 => bound_rs.min(bound_ng),
                            _ => bound_rs.max(bound_ng) + 100,
                        };
                        let mut outs: Vec<(i32, Vec<u8>)> = vec![];
                        c.exec();
                        for which in 0..2 {
                            let dst = aout.at_end(room);
                            let mut dl: std::ffi::c_ulong = room as _;
                            let r = if which == 0 { Rs::compress2(dst, &mut dl, src, n as _, level) } else { Ng::compress2(dst, &mut dl, src, n as _, level) };
                            if dl as usize > room {
                                return Err(format!("compress2 reports {dl} bytes in a {room}-byte buffer"));
                            }
                            outs.push((r, if r == Z_OK { std::slice::from_raw_parts(dst, dl as usize).to_vec() } else { vec![] }));
                        }
                        if outs[0] != outs[1] {
                            return Err(format!("compress2: zlib-rs rc {} ({} bytes), zlib-ng rc {} ({} bytes)", outs[0].0, outs[0].1.len(), outs[1].0, outs[1].1.len()));
                        }
                        if level == -1 {
                            let dst = aout.at_end(room);
                            let mut dl: std::ffi::c_ulong = room as _;
                            let r = Rs::compress(dst, &mut dl, src, n as _);
                            let dst2 = aout.at_start(room);
                            let mut dl2: std::ffi::c_ulong = room as _;
                            let r2 = Ng::compress(dst2, &mut dl2, src, n as _);
                            if r != r2 || (r == Z_OK && dl != dl2) {
                                return Err(format!("compress: zlib-rs rc {r} len {dl}, zlib-ng rc {r2} len {dl2}"));
                            }
                        }
                        // decompress what was produced (plus trailing garbage) with both
                        if outs[0].0 == Z_OK {
                            let mut z = outs[0].1.clone();
                            z.extend_from_slice(&[1, 2, 3]);
                            for dest_len in [0usize, 1, n.saturating_sub(1), n, n + 10] {
                                for trunc in [0usize, 3, 4] {
                                    let zz = &z[..z.len() - trunc];
                                    let mut res = vec![];
                                    for which in 0..2 {
                                        let s = ain.put(zz, true);
                                        let d = aout.at_end(dest_len);
                                        let mut dl: std::ffi::c_ulong = dest_len as _;
                                        let mut sl: std::ffi::c_ulong = zz.len() as _;
                                        c.exec();
                                        let r = if which == 0 { Rs::uncompress2(d, &mut dl, s, &mut sl) } else { Ng::uncompress2(d, &mut dl, s, &mut sl) };
                                        let mut dl1: std::ffi::c_ulong = dest_len as _;
                                        let r1 = if which == 0 { Rs::uncompress(d, &mut dl1, s, zz.len() as _) } else { Ng::uncompress(d, &mut dl1, s, zz.len() as _) };
                                        res.push((r, dl, sl, r1, dl1));
                                    }
                                    if res[0] != res[1] {
                                        return Err(format!("uncompress2/uncompress (dest {dest_len}, source {} of {} bytes): zlib-rs {:?}, zlib-ng {:?}", zz.len(), z.len(), res[0], res[1]));
                                    }
                                }
                            }
                        }
                        c.outcome(hash_u32s(&[n as u32, level as u32, room_kind as u32, outs[0].0 as u32]));
                        c.validated();
                        Ok(())
                    },
                );
            }
        }
    }
    // NULL arguments where zlib defines the result
    ctx.case(
        "null-arguments",
        || "NULL stream / NULL buffers where zlib defines the result".to_string(),
        |c| unsafe {
            c.exec();
            let n = std::ptr::null_mut::<z_stream>();
            macro_rules! both {
                ($name:expr, $rs:expr, $ng:expr) => {{
                    let a = $rs as i64;
                    let b = $ng as i64;
                    if a != b {
                        return Err(format!("{}: zlib-rs {a}, zlib-ng {b}", $name));
                    }
                }};
            }
            both!("deflate(NULL)", Rs::deflate(n, 0), Ng::deflate(n, 0));
            both!("deflateEnd(NULL)", Rs::deflateEnd(n), Ng::deflateEnd(n));
            both!("deflateReset(NULL)", Rs::deflateReset(n), Ng::deflateReset(n));
            both!("deflateParams(NULL)", Rs::deflateParams(n, 1, 0), Ng::deflateParams(n, 1, 0));
            both!("deflateTune(NULL)", Rs::deflateTune(n, 1, 1, 1, 1), Ng::deflateTune(n, 1, 1, 1, 1));
            both!("deflatePrime(NULL)", Rs::deflatePrime(n, 1, 1), Ng::deflatePrime(n, 1, 1));
            both!("deflateSetDictionary(NULL)", Rs::deflateSetDictionary(n, b"a".as_ptr(), 1), Ng::deflateSetDictionary(n, b"a".as_ptr(), 1));
            both!("deflatePending(NULL)", Rs::deflatePending(n, std::ptr::null_mut(), std::ptr::null_mut()), Ng::deflatePending(n, std::ptr::null_mut(), std::ptr::null_mut()));
            both!("deflateCopy(NULL,NULL)", Rs::deflateCopy(n, n), Ng::deflateCopy(n, n));
            both!("deflateInit2(NULL)", Rs::deflateInit2_(n, 6, 8, 15, 8, 0, Rs::zlibVersion(), STREAM_SIZE), Ng::deflateInit2_(n, 6, 8, 15, 8, 0, Ng::zlibVersion(), STREAM_SIZE));
            both!("inflate(NULL)", Rs::inflate(n, 0), Ng::inflate(n, 0));
            both!("inflateEnd(NULL)", Rs::inflateEnd(n), Ng::inflateEnd(n));
            both!("inflateReset(NULL)", Rs::inflateReset(n), Ng::inflateReset(n));
            both!("inflateReset2(NULL)", Rs::inflateReset2(n, 15), Ng::inflateReset2(n, 15));
            both!("inflatePrime(NULL)", Rs::inflatePrime(n, 1, 1), Ng::inflatePrime(n, 1, 1));
            both!("inflateSync(NULL)", Rs::inflateSync(n), Ng::inflateSync(n));
            both!("inflateSyncPoint(NULL)", Rs::inflateSyncPoint(n), Ng::inflateSyncPoint(n));
            both!("inflateValidate(NULL)", Rs::inflateValidate(n, 1), Ng::inflateValidate(n, 1));
            both!("inflateCopy(NULL,NULL)", Rs::inflateCopy(n, n), Ng::inflateCopy(n, n));
            both!("inflateSetDictionary(NULL)", Rs::inflateSetDictionary(n, b"a".as_ptr(), 1), Ng::inflateSetDictionary(n, b"a".as_ptr(), 1));
            both!("inflateGetHeader(NULL)", Rs::inflateGetHeader(n, std::ptr::null_mut()), Ng::inflateGetHeader(n, std::ptr::null_mut()));
            both!("inflateInit2(NULL)", Rs::inflateInit2_(n, 15, Rs::zlibVersion(), STREAM_SIZE), Ng::inflateInit2_(n, 15, Ng::zlibVersion(), STREAM_SIZE));
            both!("inflateBackEnd(NULL)", Rs::inflateBackEnd(n), Ng::inflateBackEnd(n));
            // version / size mismatch
            let mut s1 = Strm::plain();
            let mut s2 = Strm::plain();
            both!("deflateInit_(bad version)", Rs::deflateInit_(s1.p(), 6, b"9.9\0".as_ptr() as _, STREAM_SIZE), Ng::deflateInit_(s2.p(), 6, b"9.9\0".as_ptr() as _, STREAM_SIZE));
            both!("deflateInit_(bad size)", Rs::deflateInit_(s1.p(), 6, Rs::zlibVersion(), STREAM_SIZE - 1), Ng::deflateInit_(s2.p(), 6, Ng::zlibVersion(), STREAM_SIZE - 1));
            both!("inflateInit_(NULL version)", Rs::inflateInit_(s1.p(), std::ptr::null(), STREAM_SIZE), Ng::inflateInit_(s2.p(), std::ptr::null(), STREAM_SIZE));
            both!("inflateInit2_(bad size)", Rs::inflateInit2_(s1.p(), 15, Rs::zlibVersion(), 1), Ng::inflateInit2_(s2.p(), 15, Ng::zlibVersion(), 1));
            c.validated();
            Ok(())
        },
    );
}

/// the *Init_ entry points on the full matrix of (stream NULL / valid) x (version NULL, right, wrong first character,
/// empty) x (stream_size right, too small, 0, too large) x (other arguments legal / illegal): which error wins
fn init_matrix(ctx: &mut Ctx) {
    let versions: [(&str, Option<&[u8]>); 5] = [("own version", None), ("NULL", Some(&[])), ("\"9.9\"", Some(b"9.9\0")), ("\"\"", Some(b"\0")), ("\"1\"", Some(b"1\0"))];
    let sizes = [STREAM_SIZE, STREAM_SIZE - 1, 0, STREAM_SIZE + 8, -1];
    for null_strm in [false, true] {
        for (vname, v) in versions {
            for size in sizes {
                for bad_args in [false, true] {
                    ctx.case(
                        "init-argument-matrix",
                        || format!("deflateInit_ / deflateInit2_ / inflateInit_ / inflateInit2_ / inflateBackInit_ with strm {} , version {vname}, stream_size {size}, other arguments {}", if null_strm { "NULL" } else { "valid" }, if bad_args { "illegal" } else { "legal" }),
                        |c| unsafe {
                            let ver = |own: *const std::ffi::c_char| -> *const std::ffi::c_char {
                                match v {
                                    None => own,
                                    Some(b) if b.is_empty() => std::ptr::null(),
                                    Some(b) => b.as_ptr() as *const _,
                                }
                            };
                            let (level, wb, ml) = if bad_args { (77, 99, 0) } else { (6, 15, 8) };
                            let window = vec![0u8; 1 << 15];
                            for which in 0..5 {
                                c.exec();
                                let mut s1 = Strm::plain();
                                let mut s2 = Strm::plain();
                                let p1 = if null_strm { std::ptr::null_mut() } else { s1.p() };
                                let p2 = if null_strm { std::ptr::null_mut() } else { s2.p() };
                                let (name, a, b) = match which {
                                    0 => ("deflateInit_", Rs::deflateInit_(p1, level, ver(Rs::zlibVersion()), size), Ng::deflateInit_(p2, level, ver(Ng::zlibVersion()), size)),
                                    1 => ("deflateInit2_", Rs::deflateInit2_(p1, level, 8, wb, ml, 0, ver(Rs::zlibVersion()), size), Ng::deflateInit2_(p2, level, 8, wb, ml, 0, ver(Ng::zlibVersion()), size)),
                                    2 => ("inflateInit_", Rs::inflateInit_(p1, ver(Rs::zlibVersion()), size), Ng::inflateInit_(p2, ver(Ng::zlibVersion()), size)),
                                    3 => ("inflateInit2_", Rs::inflateInit2_(p1, wb, ver(Rs::zlibVersion()), size), Ng::inflateInit2_(p2, wb, ver(Ng::zlibVersion()), size)),
                                    _ => ("inflateBackInit_", Rs::inflateBackInit_(p1, wb, window.as_ptr() as *mut u8, ver(Rs::zlibVersion()), size), Ng::inflateBackInit_(p2, wb, window.as_ptr() as *mut u8, ver(Ng::zlibVersion()), size)),
                                };
                                if a == Z_OK && !null_strm {
                                    match which {
                                        0 | 1 => {
                                            Rs::deflateEnd(s1.p());
                                        }
                                        2 | 3 => {
                                            Rs::inflateEnd(s1.p());
                                        }
                                        _ => {
                                            Rs::inflateBackEnd(s1.p());
                                        }
                                    }
                                }
                                if b == Z_OK && !null_strm {
                                    match which {
                                        0 | 1 => {
                                            Ng::deflateEnd(s2.p());
                                        }
                                        2 | 3 => {
                                            Ng::inflateEnd(s2.p());
                                        }
                                        _ => {
                                            Ng::inflateBackEnd(s2.p());
                                        }
                                    }
                                }
                                if a != b {
                                    return Err(format!("{name}: zlib-rs returns {}, zlib-ng {}", rc_name(a), rc_name(b)));
                                }
                                c.outcome(mix(which as u64, a as u64));
                            }
                            c.nontrivial();
                            c.validated();
                            Ok(())
                        },
                    );
                }
            }
        }
    }
}

/// deflateInit2 ; deflate(n bytes) ; deflateParams with `room` bytes of output space and `left` bytes of new input ;
/// deflate(Z_FINISH): (status, input consumed, output bytes) of every call
unsafe fn params_prog<Zx: Z>(cfg: (i32, i32), n: usize, flush0: i32, new: (i32, i32), room: usize, left: usize, data: &[u8], ain: &Arena, aout: &Arena) -> Result<Vec<(i32, u32, Vec<u8>)>, String> {
    let mut s = Strm::plain();
    let r = Zx::deflateInit2_(s.p(), cfg.0, 8, -15, 8, cfg.1, Zx::zlibVersion(), STREAM_SIZE);
    if r != Z_OK {
        return Err(format!("{}: deflateInit2 returned {}", Zx::NAME, rc_name(r)));
    }
    let mut log = vec![];
    let mut pending: Vec<u8> = data[..n].to_vec();
    let mut src = n;
    for step in 0..3 {
        if step == 1 {
            pending.extend_from_slice(&data[src..src + left]);
            src += left;
        }
        if step == 2 {
            pending.extend_from_slice(&data[src..src + 100]);
            src += 100;
        }
        let room_n = if step == 1 { room } else { 16384 };
        let pin = ain.put(&pending, true);
        let pout = aout.at_end(room_n);
        s.z.next_in = pin;
        s.z.avail_in = pending.len() as u32;
        s.z.next_out = pout;
        s.z.avail_out = room_n as u32;
        let ret = match step {
            0 => Zx::deflate(s.p(), flush0),
            1 => Zx::deflateParams(s.p(), new.0, new.1),
            _ => Zx::deflate(s.p(), Z_FINISH),
        };
        let din = (s.z.next_in as usize).wrapping_sub(pin as usize);
        let dout = (s.z.next_out as usize).wrapping_sub(pout as usize);
        if din > pending.len() || dout > room_n || s.z.avail_in as usize != pending.len() - din || s.z.avail_out as usize != room_n - dout {
            Zx::deflateEnd(s.p());
            return Err(format!("{}: call {step}: cursors left their buffers (consumed {din} of {}, produced {dout} of {room_n})", Zx::NAME, pending.len()));
        }
        log.push((ret, din as u32, std::slice::from_raw_parts(pout, dout).to_vec()));
        pending.drain(..din);
    }
    Zx::deflateEnd(s.p());
    Ok(log)
}

/// deflateParams in every situation of buffered data x output space: the levels/strategies that leave data buffered
/// without lookahead (stored, Huffman-only, RLE) as well as the matchers, after a call that did or did not flush,
/// with 0..=9 and ample bytes of room and with or without new input
fn params_rooms(ctx: &mut Ctx) {
    let ain = Arena::new(1 << 16);
    let aout = Arena::new(1 << 16);
    let data = text(17, 8000);
    let quick = ctx.quick();
    for level in 0..=9 {
        for st in 0..=4 {
            for n in [0usize, 1, 40, 300, 5000] {
                for flush0 in [Z_NO_FLUSH, Z_SYNC_FLUSH] {
                    for new in [(0, 0), (1, 0), (6, 0), (9, 2), (level, st), (level, (st + 1) % 5)] {
                        for room in [0usize, 1, 2, 3, 4, 5, 6, 7, 8, 9, 64, 16384] {
                            for left in [0usize, 5] {
                                if quick && (room + level as usize + n) % 2 == 1 && room > 1 && room < 64 {
                                    continue;
                                }
                                ctx.case(
                                    "params-rooms",
                                    || format!("deflateInit2(level={level}, raw, strategy={st}) ; deflate({}, {n} bytes) ; deflateParams({}, {}) with avail_in={left} avail_out={room} ; deflate(Z_FINISH, +100 bytes)", if flush0 == Z_NO_FLUSH { "Z_NO_FLUSH" } else { "Z_SYNC_FLUSH" }, new.0, new.1),
                                    |c| unsafe {
                                        c.exec();
                                        let a = params_prog::<Rs>((level, st), n, flush0, new, room, left, &data, &ain, &aout)?;
                                        let b = params_prog::<Ng>((level, st), n, flush0, new, room, left, &data, &ain, &aout)?;
                                        for (k, (x, y)) in a.iter().zip(b.iter()).enumerate() {
                                            if x != y {
                                                return Err(format!("call {k} ({}): zlib-rs returns {} consumed {} produced {} bytes, zlib-ng returns {} consumed {} produced {} bytes{}", ["deflate", "deflateParams", "deflate(Z_FINISH)"][k], rc_name(x.0), x.1, x.2.len(), rc_name(y.0), y.1, y.2.len(), if x.2 != y.2 && x.2.len() == y.2.len() { " (bytes differ)" } else { "" }));
                                            }
                                        }
                                        c.outcome(mix(a[1].0 as u64 ^ (a[1].2.len() as u64) << 8, hash_bytes(&a[2].2)));
                                        c.validated();
                                        Ok(())
                                    },
                                );
                            }
                        }
                    }
                }
            }
        }
    }
}

/// deflateInit2 ; deflateTune(...) ; one deflate(Z_FINISH): status of each call and the compressed bytes
unsafe fn tune_prog<Zx: Z>(level: i32, st: i32, tune: [i32; 4], data: &[u8], ain: &Arena, aout: &Arena) -> Result<(i32, i32, Vec<u8>), String> {
    let mut s = Strm::plain();
    let r = Zx::deflateInit2_(s.p(), level, 8, -15, 8, st, Zx::zlibVersion(), STREAM_SIZE);
    if r != Z_OK {
        return Err(format!("{}: deflateInit2 returned {}", Zx::NAME, rc_name(r)));
    }
    let rt = Zx::deflateTune(s.p(), tune[0], tune[1], tune[2], tune[3]);
    let room = data.len() * 2 + 1000;
    let pout = aout.at_end(room);
    s.z.next_in = ain.put(data, true);
    s.z.avail_in = data.len() as u32;
    s.z.next_out = pout;
    s.z.avail_out = room as u32;
    let rd = Zx::deflate(s.p(), Z_FINISH);
    let n = room - s.z.avail_out as usize;
    let out = std::slice::from_raw_parts(pout, n).to_vec();
    Zx::deflateEnd(s.p());
    Ok((rt, rd, out))
}

/// deflateTune with every parameter taken through the interesting values of a C int (negative, 0, around each level's
/// own setting, 16-bit and 32-bit limits), one parameter at a time and all together, at every level: same statuses and
/// same compressed bytes as the reference
fn tune_matrix(ctx: &mut Ctx) {
    let ain = Arena::new(1 << 16);
    let aout = Arena::new(1 << 17);
    let mut data = text(12, 2500);
    data.extend(rep(b'x', 700));
    data.extend(text(12, 1500));
    data.extend(periodic(300, 2000));
    let vals = [i32::MIN, -70000, -1, 0, 1, 2, 3, 4, 5, 8, 16, 32, 128, 257, 258, 259, 1024, 4096, 32767, 32768, 65535, 65536, 65537, 70000, 1 << 20, i32::MAX];
    for level in 1..=9 {
        for st in [0, 1] {
            for which in 0..5usize {
                for &v in &vals {
                    // (good_length, max_lazy, nice_length, max_chain) of a middle level as the base
                    let mut t = [8, 16, 128, 128];
                    if which < 4 {
                        t[which] = v;
                    } else {
                        t = [v, v, v, v];
                    }
                    // the reference's medium strategy computes 16 * max_lazy in 32-bit unsigned arithmetic: for a max_lazy
                    // of 2^28 or more (as unsigned) whose product wraps to a small number, "no limit" accidentally
                    // becomes "limit 0" there (e.g. INT_MIN -> 0). Not compared: zlib itself has no such product.
                    if (t[1] as u32) >= 1 << 28 && (t[1] as u32).wrapping_mul(16) < 16 * 259 {
                        continue;
                    }
                    ctx.case(
                        "tune-matrix",
                        || format!("deflateInit2(level={level}, raw, strategy={st}) ; deflateTune({}, {}, {}, {}) ; deflate(Z_FINISH, {} bytes)", t[0], t[1], t[2], t[3], data.len()),
                        |c| unsafe {
                            c.exec();
                            let a = tune_prog::<Rs>(level, st, t, &data, &ain, &aout)?;
                            let b = tune_prog::<Ng>(level, st, t, &data, &ain, &aout)?;
                            if (a.0, a.1) != (b.0, b.1) {
                                return Err(format!("zlib-rs: deflateTune {} deflate {}; zlib-ng: deflateTune {} deflate {}", rc_name(a.0), rc_name(a.1), rc_name(b.0), rc_name(b.1)));
                            }
                            if a.2 != b.2 {
                                let k = a.2.iter().zip(b.2.iter()).position(|(x, y)| x != y).unwrap_or(a.2.len().min(b.2.len()));
                                return Err(format!("compressed bytes differ after deflateTune: zlib-rs {} bytes, zlib-ng {} bytes, first difference at byte {k}", a.2.len(), b.2.len()));
                            }
                            c.outcome(hash_bytes(&a.2));
                            c.validated();
                            Ok(())
                        },
                    );
                }
            }
        }
    }
}

/// inflateValidate with every interesting value of its C int argument (zlib: any non-zero value switches checking on),
/// before the first inflate call or after the header, on valid streams and on streams whose trailer check value is
/// wrong: same statuses, same data movement as the reference
fn validate_values(ctx: &mut Ctx) {
    let env = IEnv { ain: Arena::new(1 << 16), aout: Arena::new(1 << 17), aux: Arena::new(1 << 16), hdr: [Arena::new(4096), Arena::new(4096), Arena::new(4096)] };
    let sets = datasets();
    for ds in sets.iter().filter(|d| matches!(d.name, "zlib" | "gzip-plain" | "gzip+header" | "zlib+fdict")) {
        let wb = if ds.name.starts_with("gzip") { 31 } else { 15 };
        let mut bad_check = ds.bytes.clone();
        let k = if wb == 31 { bad_check.len() - 6 } else { bad_check.len() - 2 };
        bad_check[k] ^= 0x21;
        let mut bad_len = ds.bytes.clone();
        let k = bad_len.len() - 1;
        bad_len[k] ^= 0x01;
        for (vn, bytes) in [("intact", &ds.bytes), ("wrong check value", &bad_check), ("last byte changed", &bad_len)] {
            for check in [i32::MIN, -256, -2, -1, 0, 1, 2, 4, 0x100, 0x10000, i32::MAX] {
                for when in [0usize, 1, 2, 12, 40] {
                    for wbv in [wb, 47] {
                        ctx.case(
                            "validate-values",
                            || format!("data={} ({vn}) inflateInit2({wbv}) ; inflate({when} bytes) ; inflateValidate({check}) ; inflate(rest) ; inflate(Z_FINISH)", ds.name),
                            |c| {
                                let mut ops = vec![];
                                if when > 0 {
                                    ops.push(IOp::Inflate { flush: Z_NO_FLUSH, inn: when, room: AMPLE });
                                }
                                ops.push(IOp::Validate(check));
                                ops.push(IOp::Inflate { flush: Z_NO_FLUSH, inn: usize::MAX, room: AMPLE });
                                ops.push(IOp::Inflate { flush: Z_FINISH, inn: usize::MAX, room: AMPLE });
                                c.exec();
                                let a = run_iops::<Rs>(wbv, bytes, &ds.dict, &ops, &env, false, 0xA5)?;
                                let b = run_iops::<Ng>(wbv, bytes, &ds.dict, &ops, &env, false, 0x00)?;
                                if a != b {
                                    return Err(format!("status codes / data movement differ from zlib-ng: zlib-rs {} ; zlib-ng {}", decode_log(&a), decode_log(&b)));
                                }
                                c.outcome(hash_bytes(&a));
                                c.validated();
                                Ok(())
                            },
                        );
                    }
                }
            }
        }
    }
}

/// deflatePrime while output is pending (the reference scrambles its own stream there, see DESIGN 11.3, so zlib-rs runs
/// alone): the pending buffer filled and partly drained in every combination, then deflatePrime(16, v) repeated until it
/// refuses - every call answers Z_OK or Z_BUF_ERROR, nothing leaves the buffers, the process is not terminated
fn prime_on_pending(ctx: &mut Ctx) {
    let ain = Arena::new(1 << 16);
    let aout = Arena::new(1 << 16);
    let data = lcg_bytes(31, 9000);
    for level in [0, 1, 6, 9] {
        for ml in [1, 2, 8] {
            for n in [0usize, 100, 507, 600, 5000] {
                for room1 in [0usize, 1, 5, 300] {
                    for room2 in [usize::MAX, 0, 1, 100, 400, 505] {
                        ctx.case(
                            "prime-on-pending",
                            || format!("deflateInit2(level={level}, raw, memLevel={ml}) ; deflate(Z_NO_FLUSH, {n} bytes, room {room1}) ; {} ; deflatePrime(16, 0xABCD) until refused ; deflateEnd", if room2 == usize::MAX { "-".to_string() } else { format!("deflate(Z_NO_FLUSH, no input, room {room2})") }),
                            |c| unsafe {
                                c.exec();
                                let mut s = Strm::guarded(0x4D);
                                let r = Rs::deflateInit2_(s.p(), level, 8, -15, ml, 0, Rs::zlibVersion(), STREAM_SIZE);
                                if r != Z_OK {
                                    return Err(format!("deflateInit2 returned {}", rc_name(r)));
                                }
                                let pin = ain.put(&data[..n], true);
                                s.z.next_in = pin;
                                s.z.avail_in = n as u32;
                                s.z.next_out = aout.at_end(room1);
                                s.z.avail_out = room1 as u32;
                                let r1 = Rs::deflate(s.p(), Z_NO_FLUSH);
                                if room2 != usize::MAX {
                                    s.z.next_out = aout.at_end(room2);
                                    s.z.avail_out = room2 as u32;
                                    let _ = Rs::deflate(s.p(), Z_NO_FLUSH);
                                }
                                let mut accepted = 0u32;
                                let mut last = Z_OK;
                                for _ in 0..100_000 {
                                    last = Rs::deflatePrime(s.p(), 16, 0xABCD);
                                    if last != Z_OK {
                                        break;
                                    }
                                    accepted += 1;
                                }
                                let e = Rs::deflateEnd(s.p());
                                if last != Z_BUF_ERROR {
                                    return Err(format!("deflatePrime answered {} after {accepted} accepted calls (Z_BUF_ERROR is the documented refusal)", rc_name(last)));
                                }
                                if e != Z_OK && e != Z_DATA_ERROR {
                                    return Err(format!("deflateEnd returned {}", rc_name(e)));
                                }
                                c.outcome(mix(accepted as u64, r1 as u64));
                                c.nontrivial();
                                c.validated();
                                Ok(())
                            },
                        );
                    }
                }
            }
        }
    }
}

/// inflateSync started with a number of bits in the bit buffer that is NOT a multiple of 8 (inflate stopped inside a
/// byte at a block boundary, or inflatePrime with 1..=7 bits) and at least one whole byte (inflatePrime with the next
/// 8 / 16 bits of the stream): the unused bits of the byte in progress are dropped, the search starts at the next byte
/// boundary. Every combination, in lock-step with the reference (run in a child: it has C-level UB on some primes).
fn sync_odd_bits(ctx: &mut Ctx) {
    let env = IEnv { ain: Arena::new(1 << 16), aout: Arena::new(1 << 17), aux: Arena::new(1 << 16), hdr: [Arena::new(4096), Arena::new(4096), Arena::new(4096)] };
    let sets = datasets();
    for ds in sets.iter().filter(|d| matches!(d.name, "raw" | "raw-markers" | "zlib")) {
        let wb = if ds.name == "zlib" { 15 } else { -15 };
        let firsts: Vec<Option<IOp>> = vec![None, Some(IOp::Inflate { flush: Z_BLOCK, inn: usize::MAX, room: AMPLE }), Some(IOp::Inflate { flush: Z_NO_FLUSH, inn: 3, room: AMPLE }), Some(IOp::Inflate { flush: Z_NO_FLUSH, inn: 11, room: AMPLE })];
        for first in &firsts {
            for pbits in 0..=7i32 {
                for pval in [0i32, 0x7f, 0x55] {
                    for pd in [0i32, 8, 16] {
                        for order in 0..2 {
                            if (pbits == 0 || pd == 0) && order == 1 {
                                continue;
                            }
                            let mut ops: Vec<IOp> = vec![];
                            if let Some(f) = first {
                                ops.push(*f);
                            }
                            let a = if pbits > 0 { Some(IOp::Prime(pbits, pval)) } else { None };
                            let b = if pd > 0 { Some(IOp::PrimeData(pd)) } else { None };
                            for o in if order == 0 { [a, b] } else { [b, a] }.into_iter().flatten() {
                                ops.push(o);
                            }
                            ops.push(IOp::Sync);
                            ops.push(IOp::Inflate { flush: Z_NO_FLUSH, inn: usize::MAX, room: AMPLE });
                            ctx.case(
                                "sync-odd-bits",
                                || format!("data={} ({} bytes) inflateInit2({wb}) ; {}", ds.name, ds.bytes.len(), iops_desc(&ops)),
                                |c| {
                                    c.exec();
                                    let a = run_iops::<Rs>(wb, &ds.bytes, &ds.dict, &ops, &env, false, 0xA5)?;
                                    let ng = |fill: u8| run_iops::<Ng>(wb, &ds.bytes, &ds.dict, &ops, &env, false, fill).unwrap_or_else(|e| {
                                        let mut v = vec![0xEE];
                                        v.extend_from_slice(e.as_bytes());
                                        v
                                    });
                                    let Some(b) = in_child(|| ng(0x00)) else {
                                        c.count("skipped_ng_ub", 1);
                                        return Ok(());
                                    };
                                    if b.first() == Some(&0xEE) {
                                        c.count("reference_not_comparable", 1);
                                        return Ok(());
                                    }
                                    if a != b {
                                        // (after a bogus sync point the reference decodes through a window it never filled)
                                        if let Some(b2) = in_child(|| ng(0xFF)) {
                                            if b2 != b {
                                                c.count("not_compared_reference_depends_on_uninitialised_memory", 1);
                                                return Ok(());
                                            }
                                        }
                                        return Err(format!("status codes / data movement differ from zlib-ng: zlib-rs {} ; zlib-ng {}", decode_log(&a), decode_log(&b)));
                                    }
                                    c.outcome(hash_bytes(&a));
                                    c.nontrivial();
                                    c.validated();
                                    Ok(())
                                },
                            );
                        }
                    }
                }
            }
        }
    }
}

pub fn run(ctx: &mut Ctx) {
    let env = OpEnv::new();
    init_matrix(ctx);
    params_rooms(ctx);
    tune_matrix(ctx);
    validate_values(ctx);
    prime_on_pending(ctx);
    sync_odd_bits(ctx);
    deflate_side(ctx, &env);
    inflate_side(ctx);
    one_shots(ctx);
}
