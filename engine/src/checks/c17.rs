//! C17 — gz file layer: writes read back exactly; reads/seeks follow the logical stream.

use crate::api::*;
use crate::drv::*;
use crate::engine::*;
use crate::inputs::*;
use crate::optree::sequences;
use crate::refs::inflate_ref::RefOpts;
use crate::refs::wrap::{self as r3, Wrapped};
use std::ffi::{c_void, CString};

pub const INFO: CheckInfo = CheckInfo {
    prop: "C17",
    level: "model_checking",
    rule: "explicit enumeration of ALL gz operation sequences up to a depth. Read side: files {one gzip member, two members, member boundary at every offset of an 8-byte buffer, gzip + trailing garbage, plain bytes, empty, truncated member, member with header fields} x gzbuffer {8, 9, 16, 64} x sequences over {gzread(1|3|buffer|2*buffer+1), gzfread(3x2), gzgetc, gzungetc, gzgets(2|5|40), gzseek(SET 0|10|len+3, CUR -2|+2|+buffer), gzrewind, gztell, gzeof, gzdirect, gzclearerr}. Write side: modes {w, w9h, wT, a onto an existing member} x gzbuffer {8, 16} x sequences over {gzwrite(1|buffer-1|buffer|2*buffer+1), gzfwrite, gzputc, gzputs, gzflush(sync|full|finish), gzsetparams, gzseek(CUR +3|+buffer+1), gztell}; gzclose. Oracles: (1) reference model R5 (logical byte stream + position + push-back) predicts every byte returned and every gztell for well-formed files, and the written file must be a valid member sequence (R2+R3; plain bytes in transparent mode) decoding to exactly the logical stream written; (2) the same sequence on zlib-ng's gz layer, compared call by call (return values, bytes, gzeof, gztell), settles the under-documented corners (truncated files, error stickiness). Files live in memfds; path-based opens (incl. a non-UTF-8 file name) use a temporary directory removed by the run. distinct_nontrivial = distinct (file, buffer, observation trace) outcomes.",
    assumptions: &["R5/R2/R3 trusted; zlib-ng's gz layer (2.3.3) as tie-breaker", "sequences deeper than the bound, other buffer sizes and other argument values are not covered; gzprintf is not covered"],
    bound_quick: "read: depth 3 over 19 operations, 9 files x 4 buffer sizes; write: depth 3 over 14 operations, 4 modes x 2 buffer sizes",
    bound_thorough: "read: depth 4 over the full 22-operation alphabet on every main file and buffer size, depth 5 over the basic alphabet with the 8-byte buffer; write: depth 4 (17 operations), depth 5 over the basic alphabet in mode wb",
};

#[derive(Clone, Copy, Debug, PartialEq, Eq)]
enum R {
    Read(usize),
    Fread(usize, usize),
    Getc,
    Ungetc(u8),
    Gets(usize),
    SeekSet(i64),
    SeekCur(i64),
    Rewind,
    Tell,
    Eof,
    Direct,
    ClearErr,
}

#[derive(Clone, Copy, Debug, PartialEq, Eq)]
enum W {
    Write(usize),
    Fwrite(usize, usize),
    Putc,
    Puts,
    Flush(i32),
    SetParams(i32, i32),
    SeekCur(i64),
    Tell,
}

struct GEnd;
impl Drop for GEnd {
    fn drop(&mut self) {
        crate::mem::g_end();
    }
}

#[derive(Clone, Debug, PartialEq, Eq)]
struct Ob {
    ret: i64,
    bytes: Vec<u8>,
}

fn memfd_with(content: &[u8]) -> i32 {
    unsafe {
        let fd = libc::memfd_create(b"zverif-gz\0".as_ptr() as *const _, 0);
        assert!(fd >= 0, "memfd_create");
        let mut off = 0;
        while off < content.len() {
            let n = libc::write(fd, content[off..].as_ptr() as *const _, content.len() - off);
            assert!(n > 0);
            off += n as usize;
        }
        libc::lseek(fd, 0, libc::SEEK_SET);
        fd
    }
}

fn read_all(fd: i32) -> Vec<u8> {
    unsafe {
        libc::lseek(fd, 0, libc::SEEK_SET);
        let mut v = vec![];
        let mut buf = [0u8; 65536];
        loop {
            let n = libc::read(fd, buf.as_mut_ptr() as *mut _, buf.len());
            if n <= 0 {
                break;
            }
            v.extend_from_slice(&buf[..n as usize]);
        }
        v
    }
}

fn run_read<Zx: Z>(file: &[u8], bufsize: u32, ops: &[R]) -> Result<Vec<Ob>, String> {
    unsafe {
        let fd = memfd_with(file);
        // fresh heap memory is filled with 0xCD for the duration of the run: reads of uninitialised memory become deterministic
        crate::mem::g_begin(None, None, 0xCD);
        let _guard = GEnd;
        let f = Zx::gzdopen(fd, b"rb\0".as_ptr() as *const _);
        if f.is_null() {
            libc::close(fd);
            return Err(format!("{}: gzdopen returned NULL", Zx::NAME));
        }
        let mut obs = vec![];
        let r = Zx::gzbuffer(f, bufsize);
        obs.push(Ob { ret: r as i64, bytes: vec![] });
        let want = ops.iter().map(|o| if let R::Read(n) = o { *n } else { 0 }).max().unwrap_or(0).max(4096);
        let mut buf = vec![0xEEu8; want];
        for op in ops {
            let o = match *op {
                R::Read(n) => {
                    let r = Zx::gzread(f, buf.as_mut_ptr() as *mut c_void, n as u32);
                    Ob { ret: r as i64, bytes: if r > 0 { buf[..r as usize].to_vec() } else { vec![] } }
                }
                R::Fread(size, nitems) => {
                    let r = Zx::gzfread(buf.as_mut_ptr() as *mut c_void, size, nitems, f);
                    Ob { ret: r as i64, bytes: buf[..(r * size).min(4096)].to_vec() }
                }
                R::Getc => Ob { ret: Zx::gzgetc(f) as i64, bytes: vec![] },
                R::Ungetc(c) => Ob { ret: Zx::gzungetc(c as i32, f) as i64, bytes: vec![] },
                R::Gets(n) => {
                    buf[..n].fill(0xEE);
                    let p = Zx::gzgets(f, buf.as_mut_ptr() as *mut _, n as i32);
                    if p.is_null() {
                        Ob { ret: -1, bytes: vec![] }
                    } else {
                        let len = buf[..n].iter().position(|&b| b == 0).unwrap_or(n);
                        Ob { ret: len as i64, bytes: buf[..len].to_vec() }
                    }
                }
                R::SeekSet(k) => Ob { ret: Zx::gzseek(f, k as _, libc::SEEK_SET) as i64, bytes: vec![] },
                R::SeekCur(k) => Ob { ret: Zx::gzseek(f, k as _, libc::SEEK_CUR) as i64, bytes: vec![] },
                R::Rewind => Ob { ret: Zx::gzrewind(f) as i64, bytes: vec![] },
                R::Tell => Ob { ret: Zx::gztell(f) as i64, bytes: vec![] },
                R::Eof => Ob { ret: Zx::gzeof(f) as i64, bytes: vec![] },
                R::Direct => Ob { ret: Zx::gzdirect(f) as i64, bytes: vec![] },
                R::ClearErr => {
                    Zx::gzclearerr(f);
                    Ob { ret: 0, bytes: vec![] }
                }
            };
            obs.push(o);
        }
        // final observables: position, eof, error code
        obs.push(Ob { ret: Zx::gztell(f) as i64, bytes: vec![] });
        obs.push(Ob { ret: Zx::gzeof(f) as i64, bytes: vec![] });
        let mut errnum = 0i32;
        let _ = Zx::gzerror(f, &mut errnum);
        obs.push(Ob { ret: errnum as i64, bytes: vec![] });
        let c = Zx::gzclose(f);
        obs.push(Ob { ret: c as i64, bytes: vec![] });
        Ok(obs)
    }
}

/// R5: logical stream model for well-formed files
struct R5 {
    data: Vec<u8>,
    pos: i64,
    /// pending forward skip target (lazy seek)
    pushed: Vec<u8>,
}

impl R5 {
    fn avail(&self) -> usize {
        (self.data.len() as i64 - self.pos.max(0)).max(0) as usize
    }
    fn take(&mut self, n: usize) -> Vec<u8> {
        let mut out = vec![];
        while out.len() < n {
            if let Some(b) = self.pushed.pop() {
                out.push(b);
                self.pos += 1;
                continue;
            }
            // a lazy seek beyond the end lands at the end when data is wanted
            if self.pos > self.data.len() as i64 {
                self.pos = self.data.len() as i64;
            }
            if self.avail() == 0 {
                break;
            }
            out.push(self.data[self.pos as usize]);
            self.pos += 1;
        }
        out
    }
}

/// what R5 is able to predict about one op: Some((ret, bytes)) or None (left to the zlib-ng comparison)
fn r5_step(m: &mut R5, op: R) -> Option<(i64, Vec<u8>)> {
    match op {
        R::Read(n) => {
            let b = m.take(n);
            Some((b.len() as i64, b))
        }
        R::Fread(size, nitems) => {
            let b = m.take(size * nitems);
            // whole items only are reported; a partial item's bytes are consumed as well
            let items = b.len() / size;
            Some((items as i64, b[..items * size].to_vec()))
        }
        R::Getc => {
            let b = m.take(1);
            Some((b.first().map_or(-1, |&x| x as i64), vec![]))
        }
        R::Ungetc(c) => {
            m.pushed.push(c);
            m.pos -= 1;
            Some((c as i64, vec![]))
        }
        R::Gets(n) => {
            if n < 1 {
                return None;
            }
            let mut out = vec![];
            while out.len() < n - 1 {
                let b = m.take(1);
                let Some(&x) = b.first() else { break };
                out.push(x);
                if x == b'\n' {
                    break;
                }
            }
            if out.is_empty() && n > 1 {
                Some((-1, vec![]))
            } else {
                Some((out.len() as i64, out))
            }
        }
        R::SeekSet(k) => {
            if k < 0 {
                return Some((-1, vec![]));
            }
            m.pushed.clear();
            m.pos = k;
            Some((k, vec![]))
        }
        R::SeekCur(k) => {
            let t = m.pos + k;
            if t < 0 {
                return Some((-1, vec![]));
            }
            m.pushed.clear();
            m.pos = t;
            Some((t, vec![]))
        }
        R::Rewind => {
            m.pushed.clear();
            m.pos = 0;
            Some((0, vec![]))
        }
        R::Tell => Some((m.pos, vec![])),
        R::Eof | R::Direct | R::ClearErr => None,
    }
}

fn gz_member(data: &[u8], level: i32, gz: Option<&r3::GzFields>) -> Vec<u8> {
    let env = Env::new();
    let cfg = DCfg { level, strategy: 0, wbits: 15, mem_level: 8, wrap: Wrap::Gzip };
    run_deflate::<Ng>(&cfg, data, &DSched::one_shot(), &env, &DExtra { gz, ..Default::default() }, None).expect("reference deflate").out
}

struct RFile {
    name: String,
    bytes: Vec<u8>,
    /// logical content when the file is well formed (R5 applies)
    logical: Option<Vec<u8>>,
}

fn read_files() -> Vec<RFile> {
    let a = b"line one\nsecond line is longer\n\nx\nlast line without newline".to_vec();
    let b = text(5, 90);
    let ma = gz_member(&a, 6, None);
    let mb = gz_member(&b, 1, None);
    let mut v = vec![];
    v.push(RFile { name: "one member".into(), bytes: ma.clone(), logical: Some(a.clone()) });
    let mut two = ma.clone();
    two.extend_from_slice(&mb);
    let mut ab = a.clone();
    ab.extend_from_slice(&b);
    v.push(RFile { name: "two members".into(), bytes: two, logical: Some(ab.clone()) });
    // member boundary at each offset of an 8-byte input buffer: pad the first member's NAME field
    for k in 1..8 {
        let f = r3::GzFields { os: 3, name: Some(vec![b'n'; k]), ..Default::default() };
        let mut t = gz_member(&a, 6, Some(&f));
        t.extend_from_slice(&mb);
        v.push(RFile { name: format!("two members, first header padded by {k}"), bytes: t, logical: Some(ab.clone()) });
    }
    let mut g = ma.clone();
    g.extend_from_slice(b"trailing garbage, not gzip");
    v.push(RFile { name: "gzip + garbage".into(), bytes: g, logical: None });
    v.push(RFile { name: "plain".into(), bytes: ab.clone(), logical: Some(ab.clone()) });
    v.push(RFile { name: "empty".into(), bytes: vec![], logical: Some(vec![]) });
    v.push(RFile { name: "truncated member".into(), bytes: ma[..ma.len() - 11].to_vec(), logical: None });
    let f = r3::GzFields { text: true, mtime: 3, os: 3, extra: Some(vec![9; 13]), name: Some(b"file.txt".to_vec()), comment: Some(b"comment".to_vec()), hcrc: true, ..Default::default() };
    v.push(RFile { name: "member with header fields".into(), bytes: gz_member(&a, 9, Some(&f)), logical: Some(a.clone()) });
    v
}

fn read_alphabet(buf: usize, len: usize, full: bool) -> Vec<R> {
    let mut v = vec![R::Read(1), R::Read(3), R::Read(buf), R::Read(2 * buf + 1), R::Getc, R::Ungetc(b'!'), R::Gets(5), R::Gets(40), R::SeekSet(0), R::SeekSet(10), R::SeekCur(-2), R::SeekCur(2), R::SeekCur(buf as i64), R::Rewind, R::Tell, R::Eof];
    if full {
        v.extend([R::Fread(3, 2), R::Gets(2), R::SeekSet(len as i64 + 3), R::Direct, R::ClearErr, R::Read(0)]);
    }
    v
}

fn read_side(ctx: &mut Ctx) {
    let quick = ctx.quick();
    let files = read_files();
    for (fi, file) in files.iter().enumerate() {
        for bufsize in [8u32, 9, 16, 64] {
            // the padded-header files matter for the 8-byte buffer only
            if file.name.contains("padded") && bufsize != 8 {
                continue;
            }
            let llen = file.logical.as_ref().map_or(60, |l| l.len());
            let main = !file.name.contains("padded");
            let plan: Vec<(Vec<R>, usize)> = if quick {
                if main {
                    vec![(read_alphabet(bufsize as usize, llen, true), 2), (read_alphabet(bufsize as usize, llen, false), 3)]
                } else {
                    vec![(read_alphabet(bufsize as usize, llen, false), 2)]
                }
            } else if main {
                let mut p = vec![(read_alphabet(bufsize as usize, llen, true), 4)];
                if bufsize == 8 {
                    p.push((read_alphabet(bufsize as usize, llen, false), 5));
                }
                p
            } else {
                vec![(read_alphabet(bufsize as usize, llen, false), 3)]
            };
            for (alpha, depth) in plan {
                sequences(&alpha, depth, |ops| {
                    ctx.case(
                        "gz-read",
                        || format!("file[{}] ({} bytes) gzbuffer({bufsize}) ; {ops:?}", file.name, file.bytes.len()),
                        |c| {
                            c.exec();
                            let a = run_read::<Rs>(&file.bytes, bufsize, ops)?;
                            c.exec();
                            let b = run_read::<Ng>(&file.bytes, bufsize, ops)?;
                            c.outcome(a.iter().fold(fi as u64, |h, o| mix(h, mix(o.ret as u64, hash_bytes(&o.bytes)))));
                            {
                                let mut prev: Option<u64> = None;
                                for (k, op) in ops.iter().enumerate() {
                                    let o = &a[k + 1];
                                    let kind = match op {
                                        R::Read(_) => 1,
                                        R::Fread(..) => 2,
                                        R::Getc => 3,
                                        R::Ungetc(_) => 4,
                                        R::Gets(_) => 5,
                                        R::SeekSet(_) => 6,
                                        R::SeekCur(_) => 7,
                                        R::Rewind => 8,
                                        R::Tell => 9,
                                        R::Eof => 10,
                                        R::Direct => 11,
                                        R::ClearErr => 12,
                                    };
                                    let h = hash_u32s(&[kind, o.ret.signum() as u32, o.bytes.is_empty() as u32]);
                                    c.state(h);
                                    if let Some(q) = prev {
                                        c.trans(q, h);
                                    }
                                    prev = Some(h);
                                }
                            }
                            if !ops.is_empty() {
                                c.nontrivial();
                            }
                            // R5 on well-formed files
                            if let Some(l) = &file.logical {
                                let mut m = R5 { data: l.clone(), pos: 0, pushed: vec![] };
                                for (k, op) in ops.iter().enumerate() {
                                    let got = &a[k + 1];
                                    // two push-backs into a fresh 8-byte buffer etc. are zlib-defined corner cases: model only the first
                                    if let R::Ungetc(_) = op {
                                        if got.ret < 0 {
                                            break;
                                        }
                                    }
                                    let Some((ret, bytes)) = r5_step(&mut m, *op) else { continue };
                                    if got.ret != ret || (!bytes.is_empty() || matches!(op, R::Read(_) | R::Gets(_) | R::Fread(..))) && got.bytes != bytes && ret >= 0 {
                                        // the reference model can be wrong about a corner; only report when zlib-ng agrees with the model
                                        if b[k + 1].ret == ret && (b[k + 1].bytes == bytes || bytes.is_empty()) {
                                            return Err(format!("op {k} {op:?}: zlib-rs returned {} {:?}; the logical stream model (and zlib-ng) give {} {:?}", got.ret, String::from_utf8_lossy(&got.bytes), ret, String::from_utf8_lossy(&bytes)));
                                        }
                                        c.count("model_divergence", 1);
                                        c.note("model_divergence", format!("file[{}] buf {bufsize} {ops:?} op {k}: model {ret}/{:?} zlib-rs {}/{:?}", file.name, String::from_utf8_lossy(&bytes), got.ret, String::from_utf8_lossy(&got.bytes)));
                                        break;
                                    }
                                }
                            }
                            if a != b {
                                let k = a.iter().zip(&b).position(|(x, y)| x != y).unwrap_or(a.len().min(b.len()));
                                let what = if k == 0 {
                                    "gzbuffer".to_string()
                                } else if k <= ops.len() {
                                    format!("op {} {:?}", k - 1, ops[k - 1])
                                } else {
                                    ["final gztell", "final gzeof", "final gzerror code", "gzclose"][k - ops.len() - 1].to_string()
                                };
                                return Err(format!("{what}: zlib-rs {:?} / {:?}, zlib-ng {:?} / {:?}", a.get(k).map(|o| o.ret), a.get(k).map(|o| String::from_utf8_lossy(&o.bytes).to_string()), b.get(k).map(|o| o.ret), b.get(k).map(|o| String::from_utf8_lossy(&o.bytes).to_string())));
                            }
                            c.validated();
                            Ok(())
                        },
                    );
                });
            }
        }
    }
}

fn run_write<Zx: Z>(mode: &str, bufsize: u32, ops: &[W], existing: &[u8], payload: &[u8]) -> Result<(Vec<i64>, Vec<u8>), String> {
    unsafe {
        let fd = memfd_with(existing);
        // the descriptor is handed over at offset 0: in append mode it is the library that moves to the end
        libc::lseek(fd, 0, libc::SEEK_SET);
        let keep = libc::dup(fd);
        let cmode = CString::new(mode).unwrap();
        crate::mem::g_begin(None, None, 0xCD);
        let _guard = GEnd;
        let f = Zx::gzdopen(fd, cmode.as_ptr());
        if f.is_null() {
            libc::close(fd);
            libc::close(keep);
            return Err(format!("{}: gzdopen({mode}) returned NULL", Zx::NAME));
        }
        let mut rets = vec![Zx::gzbuffer(f, bufsize) as i64];
        let mut src = 0usize;
        for op in ops {
            let r: i64 = match *op {
                W::Write(n) => {
                    let r = Zx::gzwrite(f, payload[src..].as_ptr() as *const c_void, n as u32) as i64;
                    src += n;
                    r
                }
                W::Fwrite(size, nitems) => {
                    let r = Zx::gzfwrite(payload[src..].as_ptr() as *const c_void, size, nitems, f) as i64;
                    src += size * nitems;
                    r
                }
                W::Putc => {
                    let r = Zx::gzputc(f, payload[src] as i32) as i64;
                    src += 1;
                    r
                }
                W::Puts => Zx::gzputs(f, b"put-string\n\0".as_ptr() as *const _) as i64,
                W::Flush(fl) => Zx::gzflush(f, fl) as i64,
                W::SetParams(l, s) => Zx::gzsetparams(f, l, s) as i64,
                W::SeekCur(k) => Zx::gzseek(f, k as _, libc::SEEK_CUR) as i64,
                W::Tell => Zx::gztell(f) as i64,
            };
            rets.push(r);
        }
        rets.push(Zx::gztell(f) as i64);
        rets.push(Zx::gzclose(f) as i64);
        let content = read_all(keep);
        libc::close(keep);
        Ok((rets, content))
    }
}

/// decode a file consisting of gzip members (strict about member validity) into its logical content
fn decode_members(mut d: &[u8]) -> Result<Vec<u8>, String> {
    let mut out = vec![];
    let mut n = 0;
    while !d.is_empty() {
        match r3::decode_gzip(d, &RefOpts::zlib()) {
            Wrapped::Ok { out: o, used, .. } => {
                out.extend_from_slice(&o);
                d = &d[used..];
                n += 1;
            }
            other => return Err(format!("member {n} is not a valid gzip member: {}", crate::checks::c01::describe_wrapped(&other))),
        }
    }
    Ok(out)
}

fn write_side(ctx: &mut Ctx) {
    let quick = ctx.quick();
    let payload = text(11, 4000);
    let existing_data = b"existing member\n".to_vec();
    let existing = gz_member(&existing_data, 6, None);
    for (mode, append, transparent) in [("wb", false, false), ("wb9h", false, false), ("wbT", false, true), ("ab", true, false)] {
        for bufsize in [8u32, 16] {
            let b = bufsize as usize;
            let mut alpha = vec![W::Write(1), W::Write(b - 1), W::Write(b), W::Write(2 * b + 1), W::Putc, W::Puts, W::Flush(Z_SYNC_FLUSH), W::Flush(Z_FINISH), W::SetParams(1, 0), W::SeekCur(3), W::Tell];
            let full = [W::Fwrite(3, 2), W::Flush(Z_FULL_FLUSH), W::SeekCur(b as i64 + 1), W::SetParams(9, 2), W::Write(0), W::Write(300)];
            let depth = if quick { 3 } else { 4 };
            let basic = alpha.clone();
            if !quick || mode == "wb" {
                alpha.extend(full);
            }
            let mut plans: Vec<(Vec<W>, usize, usize)> = vec![(alpha.clone(), depth, 0)];
            if !quick && mode == "wb" && bufsize == 8 {
                // thorough: also every sequence of exactly 5 operations over the basic alphabet
                plans.push((basic, 5, 5));
            }
            for (alpha, depth, min_len) in plans {
            sequences(&alpha, depth, |ops| {
                if ops.len() < min_len {
                    return;
                }
                ctx.case(
                    "gz-write",
                    || format!("gzdopen(\"{mode}\"){} gzbuffer({bufsize}) ; {ops:?} ; gzclose", if append { " onto an existing member" } else { "" }),
                    |c| {
                        c.exec();
                        let (ra, fa) = run_write::<Rs>(mode, bufsize, ops, if append { &existing } else { &[] }, &payload)?;
                        c.exec();
                        let (rb, fb) = run_write::<Ng>(mode, bufsize, ops, if append { &existing } else { &[] }, &payload)?;
                        // the logical stream: what the calls wrote, in order; forward seeks write zeros
                        let mut logical: Vec<u8> = if append { existing_data.clone() } else { vec![] };
                        let base = logical.len() as i64;
                        let mut src = 0usize;
                        for (k, op) in ops.iter().enumerate() {
                            let ret = ra[k + 1];
                            let expect: Option<i64> = match *op {
                                W::Write(n) => {
                                    logical.extend_from_slice(&payload[src..src + n]);
                                    src += n;
                                    Some(n as i64)
                                }
                                W::Fwrite(s, n) => {
                                    logical.extend_from_slice(&payload[src..src + s * n]);
                                    src += s * n;
                                    Some(n as i64)
                                }
                                W::Putc => {
                                    logical.push(payload[src]);
                                    src += 1;
                                    Some(payload[src - 1] as i64)
                                }
                                W::Puts => {
                                    logical.extend_from_slice(b"put-string\n");
                                    Some(11)
                                }
                                W::Flush(_) | W::SetParams(..) => Some(0),
                                W::SeekCur(kk) => {
                                    logical.extend(std::iter::repeat(0u8).take(kk as usize));
                                    Some(logical.len() as i64 - base)
                                }
                                W::Tell => Some(logical.len() as i64 - base),
                            };
                            if let Some(e) = expect {
                                if ret != e {
                                    if rb[k + 1] == e {
                                        return Err(format!("op {k} {op:?} returned {ret}; the logical stream model and zlib-ng give {e}"));
                                    }
                                    c.count("model_divergence", 1);
                                }
                            }
                        }
                        if ra != rb {
                            let k = ra.iter().zip(&rb).position(|(x, y)| x != y).unwrap_or(0);
                            return Err(format!("return values differ from zlib-ng at observation {k}: zlib-rs {ra:?}, zlib-ng {rb:?}"));
                        }
                        // the file
                        let got = if transparent { Ok(fa.clone()) } else { decode_members(&fa) };
                        match got {
                            Ok(g) => {
                                if g != logical {
                                    return Err(format!("the written file decodes to {} bytes but {} bytes were written (first difference at {:?})", g.len(), logical.len(), g.iter().zip(&logical).position(|(x, y)| x != y)));
                                }
                            }
                            Err(e) => return Err(format!("written file ({} bytes): {e}", fa.len())),
                        }
                        // and it reads back through the read side
                        c.exec();
                        let back = run_read::<Rs>(&fa, 16, &[R::Read(4000), R::Read(1)])?;
                        if back[1].bytes != logical[..logical.len().min(4000)] {
                            return Err("reading the written file back through gzread gives different bytes".into());
                        }
                        let _ = fb;
                        c.outcome(mix(hash_bytes(&fa), ra.iter().fold(0u64, |h, r| mix(h, *r as u64))));
                        if !ops.is_empty() {
                            c.nontrivial();
                        }
                        c.validated();
                        Ok(())
                    },
                );
            });
            }
        }
    }
}

fn path_opens(ctx: &mut Ctx) {
    use std::os::unix::ffi::OsStrExt;
    let data = b"some data to read back\nline two\n".to_vec();
    let member = gz_member(&data, 6, None);
    let shard = match ctx.mode {
        Mode::Worker { shard, .. } => shard,
        _ => 999,
    };
    let dir = std::env::temp_dir().join(format!("zverif-c17-{}-{}", std::process::id(), shard));
    for (nname, name) in [("ascii", b"plain-name.gz".to_vec()), ("non-utf8", vec![b'n', 0xff, 0xfe, b'.', b'g', b'z'])] {
        for (fname, content) in [("valid", member.clone()), ("truncated", member[..member.len() - 9].to_vec()), ("corrupt", { let mut m = member.clone(); let k = m.len() / 2; m[k] ^= 0x55; m })] {
            ctx.case(
                "gz-path-open",
                || format!("gzopen(path with {nname} name, \"rb\") on a {fname} file ; gzread x3 ; gzerror ; gzclose ; then gzopen(\"wb\") ; gzwrite ; gzclose"),
                |c| unsafe {
                    std::fs::create_dir_all(&dir).map_err(|e| format!("tmp dir: {e}"))?;
                    let path = dir.join(std::ffi::OsStr::from_bytes(&name));
                    std::fs::write(&path, &content).map_err(|e| format!("write tmp file: {e}"))?;
                    let cpath = CString::new(path.as_os_str().as_bytes()).unwrap();
                    let res = (|| {
                        c.exec();
                        let f = Rs::gzopen(cpath.as_ptr(), b"rb\0".as_ptr() as *const _);
                        if f.is_null() {
                            return Err("gzopen returned NULL for an existing file".to_string());
                        }
                        let mut buf = [0u8; 64];
                        let mut got = vec![];
                        for _ in 0..3 {
                            let r = Rs::gzread(f, buf.as_mut_ptr() as *mut c_void, 20);
                            if r > 0 {
                                got.extend_from_slice(&buf[..r as usize]);
                            }
                        }
                        let mut errnum = 0;
                        let msg = Rs::gzerror(f, &mut errnum);
                        if msg.is_null() {
                            return Err("gzerror returned NULL".into());
                        }
                        let cl = Rs::gzclose(f);
                        if fname == "valid" && (got != data || errnum != 0 || cl != Z_OK) {
                            return Err(format!("valid file: read {} bytes, error {errnum}, close {cl}", got.len()));
                        }
                        if fname != "valid" && errnum == 0 && got == data {
                            return Err(format!("{fname} file read back as if it were intact"));
                        }
                        // write through a path
                        let f = Rs::gzopen(cpath.as_ptr(), b"wb\0".as_ptr() as *const _);
                        if f.is_null() {
                            return Err("gzopen(wb) returned NULL".into());
                        }
                        let r = Rs::gzwrite(f, data.as_ptr() as *const c_void, data.len() as u32);
                        let cl = Rs::gzclose(f);
                        if r as usize != data.len() || cl != Z_OK {
                            return Err(format!("gzwrite {r}, gzclose {cl}"));
                        }
                        let file = std::fs::read(&path).map_err(|e| e.to_string())?;
                        if decode_members(&file)? != data {
                            return Err("file written through a path does not decode to the data".into());
                        }
                        Ok(())
                    })();
                    let _ = std::fs::remove_file(&path);
                    let _ = std::fs::remove_dir(&dir);
                    c.outcome(hash_bytes(&name) ^ hash_bytes(fname.as_bytes()));
                    c.validated();
                    res
                },
            );
        }
    }
    let _ = std::fs::remove_dir_all(&dir);
}

/// files several windows long (a 20000-byte block repeated: every later match reaches across what earlier gzread
/// calls left in the decoder's window), realistic buffer sizes, reads from 100 bytes to 1 MiB interleaved with seeks
fn read_large(ctx: &mut Ctx) {
    let quick = ctx.quick();
    // printable noise with a line break now and then (gzgets returns C strings: no NUL bytes in the data)
    let block: Vec<u8> = lcg_bytes(77, 20000).into_iter().enumerate().map(|(i, b)| if i % 71 == 70 { b'\n' } else { 0x21 + b % 90 }).collect();
    let mut logical: Vec<u8> = vec![];
    for i in 0..10u8 {
        logical.extend_from_slice(&block);
        logical.push(b'0' + i);
    }
    let one = gz_member(&logical, 6, None);
    let mut two = gz_member(&logical[..70000], 1, None);
    two.extend_from_slice(&gz_member(&logical[70000..], 9, None));
    let files = [("one member of 200 KB", one), ("two members, 70 KB + 130 KB", two)];
    let alpha = [R::Read(100), R::Read(20000), R::Read(70000), R::Read(1 << 20), R::Getc, R::Gets(40), R::SeekCur(50000), R::SeekSet(10), R::SeekSet(150000), R::Rewind];
    for (fname, bytes) in &files {
        for bufsize in [8192u32, 16384, 100, 131072] {
            sequences(&alpha, if quick { 3 } else { 4 }, |ops| {
                ctx.case(
                    "gz-read-large",
                    || format!("file[{fname}] ({} bytes) gzbuffer({bufsize}) ; {ops:?}", bytes.len()),
                    |c| {
                        c.exec();
                        let a = run_read::<Rs>(bytes, bufsize, ops)?;
                        let mut m = R5 { data: logical.clone(), pos: 0, pushed: vec![] };
                        for (k, op) in ops.iter().enumerate() {
                            let got = &a[k + 1];
                            let Some((ret, want)) = r5_step(&mut m, *op) else { continue };
                            if got.ret != ret || (matches!(op, R::Read(_) | R::Gets(_)) && got.bytes != want) {
                                return Err(format!("op {k} {op:?}: zlib-rs returned {} ({} bytes, first difference at {:?}); the logical stream gives {} ({} bytes)", got.ret, got.bytes.len(), got.bytes.iter().zip(&want).position(|(x, y)| x != y), ret, want.len()));
                            }
                        }
                        c.exec();
                        let b = run_read::<Ng>(bytes, bufsize, ops)?;
                        if a != b {
                            let k = a.iter().zip(&b).position(|(x, y)| x != y).unwrap_or(a.len().min(b.len()));
                            return Err(format!("observation {k} differs from zlib-ng: zlib-rs {:?} ({} bytes), zlib-ng {:?} ({} bytes)", a.get(k).map(|o| o.ret), a.get(k).map_or(0, |o| o.bytes.len()), b.get(k).map(|o| o.ret), b.get(k).map_or(0, |o| o.bytes.len())));
                        }
                        c.outcome(a.iter().fold(bufsize as u64, |h, o| mix(h, mix(o.ret as u64, hash_bytes(&o.bytes)))));
                        if !ops.is_empty() {
                            c.nontrivial();
                        }
                        c.validated();
                        Ok(())
                    },
                );
            });
        }
    }
}

pub fn run(ctx: &mut Ctx) {
    read_side(ctx);
    read_large(ctx);
    write_side(ctx);
    path_opens(ctx);
}
