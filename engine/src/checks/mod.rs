use crate::engine::{CheckInfo, Ctx};

pub mod c09;

pub struct Check {
    pub info: &'static CheckInfo,
    pub run: fn(&mut Ctx),
}

pub fn all() -> Vec<Check> {
    vec![Check { info: &c09::INFO, run: c09::run }]
}

pub fn find(prop: &str) -> Option<Check> {
    all().into_iter().find(|c| c.info.prop == prop)
}
