use crate::engine::{CheckInfo, Ctx};

pub mod c01;
pub mod c02;
pub mod c03;
pub mod c04;
pub mod c05;
pub mod c06;
pub mod c07;
pub mod c08;
pub mod c09;
pub mod c10;
pub mod c11;
pub mod c12;
pub mod c13;
pub mod c14;
pub mod c15;
pub mod c16;
pub mod c17;
pub mod c18;
pub mod c19;
pub mod c20;

pub struct Check {
    pub info: &'static CheckInfo,
    pub run: fn(&mut Ctx),
}

pub fn all() -> Vec<Check> {
    vec![
        Check { info: &c01::INFO, run: c01::run },
        Check { info: &c02::INFO, run: c02::run },
        Check { info: &c03::INFO, run: c03::run },
        Check { info: &c04::INFO, run: c04::run },
        Check { info: &c05::INFO, run: c05::run },
        Check { info: &c06::INFO, run: c06::run },
        Check { info: &c07::INFO, run: c07::run },
        Check { info: &c08::INFO, run: c08::run },
        Check { info: &c09::INFO, run: c09::run },
        Check { info: &c10::INFO, run: c10::run },
        Check { info: &c11::INFO, run: c11::run },
        Check { info: &c12::INFO, run: c12::run },
        Check { info: &c13::INFO, run: c13::run },
        Check { info: &c14::INFO, run: c14::run },
        Check { info: &c15::INFO, run: c15::run },
        Check { info: &c16::INFO, run: c16::run },
        Check { info: &c17::INFO, run: c17::run },
        Check { info: &c18::INFO, run: c18::run },
        Check { info: &c19::INFO, run: c19::run },
        Check { info: &c20::INFO, run: c20::run },
    ]
}

pub fn find(prop: &str) -> Option<Check> {
    all().into_iter().find(|c| c.info.prop == prop)
}
