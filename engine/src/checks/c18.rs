//! C18 — allocator discipline: balanced alloc/free; clean failure when allocation fails (E3).

use crate::api::*;
use crate::drv::*;
use crate::engine::*;
use crate::inputs::*;
use crate::machine::*;
use crate::mem::{self, AllocCtl};
use crate::optree::sequences;
use std::ffi::CString;

pub const INFO: CheckInfo = CheckInfo {
    prop: "C18",
    level: "fault_enumeration",
    rule: "fault enumeration: a set of API call histories (init/calls/end, copy mid-stream with both streams continued, reset, params, dictionary, failed init, inflateBackInit/End, several streams sharing one allocator, streams given only one of zalloc/zfree; gzopen/gzdopen -> gzbuffer -> read|write|getc|ungetc|puts|seek|flush -> close, reading a gzip / plain / empty / one-byte / two-member / garbage-trailed / truncated file, writing in modes wb / ab / wT / wb9f) is first run with a counting allocator to learn the number N of allocation requests, then re-run once for EVERY k in [0,N) with only request k failing and once for every k with all requests from k on failing. Oracle: the call during which a request failed reports Z_MEM_ERROR (a NULL gz handle / error return for gz calls); End on the faulted z_stream is safe and re-initialisation works; at the end every block has been released exactly once with the right opaque and nothing else was released (guard-paged allocator, freed blocks unmapped so any use-after-free faults; byte-balanced global allocator for the gz layer); a bystander stream created before the fault produces the same output as when run alone. Family init-verdict-balanced: inflateInit2_ with every windowBits in -72..=136 and extremes, deflateInit2_ over windowBits -20..=48 x 10 settings of the other arguments, inflateBackInit_ over -2..=24 x {window, NULL}, each under {no fault, request 0 fails, request 1 fails, every request fails}: a rejected init holds no block when it returns and End releases nothing more. Family end-in-every-state: a gzip stream with header fields around the pending-buffer size ended after k = 0..=5 deflate calls under 1-, 2-, 7-byte and ample rooms: End returns Z_OK or Z_DATA_ERROR, releases everything and clears strm->state. distinct_nontrivial = distinct (history, fault plan, per-step status) outcomes.",
    assumptions: &["histories outside the enumerated set and simultaneous multiple independent failures other than 'all from k on' are not covered", "the gz layer uses the Rust global allocator, which the harness wraps (counting, failing, byte balance) for the duration of a history"],
    bound_quick: "about 70 hand-written C-API histories plus every generated history of <= 2 (3) abstract operations (calls, dictionary, params, reset, copy-and-continue, copy-and-end) on 3 deflate / 3 inflate configurations; gz: every history of <= 2 operations over 10 read / 9 write operations x 7 file contents / 4 open modes x {by fd, by path}; every fail-at-k and fail-from-k",
    bound_thorough: "gz histories of <= 4 operations; the same histories with more configurations and longer call lists",
};

#[derive(Clone, Copy, Debug, PartialEq, Eq)]
enum H {
    DInit(usize, usize),
    IInit(usize, i32),
    BInit(usize, i32),
    D(usize, MOp),
    I(usize, MOp),
    DCopy(usize, usize),
    ICopy(usize, usize),
    DReset(usize),
    IReset(usize),
    End(usize),
}

const DCFGS: [(i32, i32, i32, i32); 5] = [(6, 15, 8, 0), (1, -9, 1, 0), (0, 25, 1, 0), (9, -15, 9, 3), (4, 10, 2, 2)];

#[derive(Clone, Copy, PartialEq, Eq, Debug)]
enum Kind {
    Empty,
    Deflate,
    Inflate,
    Back,
}

struct Slot<'a> {
    z: Box<z_stream>,
    kind: Kind,
    pos: usize,
    given: usize,
    data: &'a [u8],
    init: Option<H>,
}

fn wired(ctl: &mut AllocCtl) -> Box<z_stream> {
    let mut z = zeroed_stream();
    z.zalloc = Some(mem::v_zalloc);
    z.zfree = Some(mem::v_zfree);
    z.opaque = ctl.opaque();
    z
}

struct Outcome {
    rets: Vec<i32>,
    requests: u64,
    bystander_out: Vec<u8>,
}

/// run one history under a fault plan; Err = violated obligation
fn run_history<'a>(hist: &[H], fail_at: Option<u64>, fail_from: Option<u64>, plain: &'a [u8], packed: &'a [u8], env: &MEnv) -> Result<Outcome, String> {
    unsafe {
        let mut ctl = AllocCtl::new(0xE1);
        ctl.strict_uaf = true;
        // the bystander exists before any fault can happen
        let mut by_ctl = AllocCtl::new(0x2B);
        by_ctl.strict_uaf = true;
        let mut by = wired(&mut by_ctl);
        if Rs::deflateInit2_(&mut *by, 6, 8, 15, 8, 0, Rs::zlibVersion(), STREAM_SIZE) != Z_OK {
            return Err("bystander init failed".into());
        }
        let mut by_out: Vec<u8> = vec![];
        let mut by_pos = 0usize;
        ctl.fail_at = fail_at;
        ctl.fail_from = fail_from;
        let mut window_buf = vec![0u8; 32768];
        let mut slots: Vec<Slot<'a>> = (0..3).map(|_| Slot { z: wired(&mut ctl), kind: Kind::Empty, pos: 0, given: 0, data: plain, init: None }).collect();
        let mut rets = vec![];
        let do_init = |slots: &mut Vec<Slot<'a>>, h: H, ctl: &mut AllocCtl, window: *mut u8| -> i32 {
            match h {
                H::DInit(s, c) => {
                    let (l, wb, ml, st) = DCFGS[c];
                    slots[s].z = wired(ctl);
                    let r = Rs::deflateInit2_(&mut *slots[s].z, l, 8, wb, ml, st, Rs::zlibVersion(), STREAM_SIZE);
                    if r == Z_OK {
                        slots[s].kind = Kind::Deflate;
                        slots[s].pos = 0;
                        slots[s].given = 0;
                        slots[s].data = plain;
                    }
                    r
                }
                H::IInit(s, wb) => {
                    slots[s].z = wired(ctl);
                    let r = Rs::inflateInit2_(&mut *slots[s].z, wb, Rs::zlibVersion(), STREAM_SIZE);
                    if r == Z_OK {
                        slots[s].kind = Kind::Inflate;
                        slots[s].pos = 0;
                        slots[s].data = packed;
                    }
                    r
                }
                H::BInit(s, wbits) => {
                    slots[s].z = wired(ctl);
                    let r = Rs::inflateBackInit_(&mut *slots[s].z, wbits, window, Rs::zlibVersion(), STREAM_SIZE);
                    if r == Z_OK {
                        slots[s].kind = Kind::Back;
                    }
                    r
                }
                _ => unreachable!(),
            }
        };
        for (hi, h) in hist.iter().enumerate() {
            // bystander: one piece per history step
            if by_pos < plain.len() {
                let take = 97.min(plain.len() - by_pos);
                let pin = env.ain.put(&plain[by_pos..by_pos + take], true);
                let pout = env.aout.at_end(4096);
                by.next_in = pin;
                by.avail_in = take as u32;
                by.next_out = pout;
                by.avail_out = 4096;
                let r = Rs::deflate(&mut *by, Z_SYNC_FLUSH);
                if r != Z_OK {
                    return Err(format!("bystander stream: deflate returned {}", rc_name(r)));
                }
                by_out.extend_from_slice(std::slice::from_raw_parts(pout, 4096 - by.avail_out as usize));
                by_pos += take;
            }
                    let failed_before = ctl.failed;
            let live_before = ctl.live.len();
            let mut faulted_slot: Option<usize> = None;
            let ret: i32 = match *h {
                H::DInit(s, _) | H::IInit(s, _) | H::BInit(s, _) => {
                    slots[s].init = Some(*h);
                    let r = do_init(&mut slots, *h, &mut ctl, window_buf.as_mut_ptr());
                    if r != Z_OK {
                        faulted_slot = Some(s);
                    }
                    r
                }
                H::D(s, op) => {
                    if slots[s].kind != Kind::Deflate {
                        rets.push(1000);
                        continue;
                    }
                    let sl = &mut slots[s];
                    step_deflate(sl, op, env)
                }
                H::I(s, op) => {
                    if slots[s].kind != Kind::Inflate {
                        rets.push(1000);
                        continue;
                    }
                    let sl = &mut slots[s];
                    step_inflate(sl, op, env)
                }
                H::DCopy(a, b) => {
                    if slots[a].kind != Kind::Deflate || slots[b].kind != Kind::Empty {
                        rets.push(1000);
                        continue;
                    }
                    slots[b].z = zeroed_stream();
                    let pa: *mut z_stream = &mut *slots[a].z;
                    let r = Rs::deflateCopy(&mut *slots[b].z, pa);
                    if r == Z_OK {
                        slots[b].kind = Kind::Deflate;
                        slots[b].pos = slots[a].pos;
                        slots[b].given = slots[a].given;
                        slots[b].data = slots[a].data;
                    } else {
                        faulted_slot = Some(b);
                    }
                    slots[b].init = Some(*h);
                    r
                }
                H::ICopy(a, b) => {
                    if slots[a].kind != Kind::Inflate || slots[b].kind != Kind::Empty {
                        rets.push(1000);
                        continue;
                    }
                    slots[b].z = zeroed_stream();
                    let pa: *const z_stream = &*slots[a].z;
                    let r = Rs::inflateCopy(&mut *slots[b].z, pa);
                    if r == Z_OK {
                        slots[b].kind = Kind::Inflate;
                        slots[b].pos = slots[a].pos;
                        slots[b].data = slots[a].data;
                    } else {
                        faulted_slot = Some(b);
                    }
                    slots[b].init = Some(*h);
                    r
                }
                H::DReset(s) => {
                    if slots[s].kind != Kind::Deflate {
                        rets.push(1000);
                        continue;
                    }
                    Rs::deflateReset(&mut *slots[s].z)
                }
                H::IReset(s) => {
                    if slots[s].kind != Kind::Inflate {
                        rets.push(1000);
                        continue;
                    }
                    let r = Rs::inflateReset(&mut *slots[s].z);
                    slots[s].pos = 0;
                    r
                }
                H::End(s) => {
                    let r = match slots[s].kind {
                        Kind::Deflate => Rs::deflateEnd(&mut *slots[s].z),
                        Kind::Inflate => Rs::inflateEnd(&mut *slots[s].z),
                        Kind::Back => Rs::inflateBackEnd(&mut *slots[s].z),
                        Kind::Empty => 1000,
                    };
                    slots[s].kind = Kind::Empty;
                    r
                }
            };
            rets.push(ret);
            let fault_now = ctl.failed > failed_before;
            if fault_now {
                // the call during which the allocator failed must say so
                if ret != Z_MEM_ERROR {
                    return Err(format!("step {hi} {h:?}: an allocation request failed during the call but it returned {} instead of Z_MEM_ERROR", rc_name(ret)));
                }
                if ctl.live.len() > live_before {
                    return Err(format!("step {hi} {h:?}: the failed call leaked {} block(s)", ctl.live.len() - live_before));
                }
            } else if ret == Z_MEM_ERROR {
                return Err(format!("step {hi} {h:?}: Z_MEM_ERROR although no allocation request failed"));
            }
            if let Some(s) = faulted_slot {
                // End on the faulted z_stream must be safe (and must not release anything that belongs to another stream)
                let live0 = ctl.live.len();
                let e = match *h {
                    H::DInit(..) | H::DCopy(..) => Rs::deflateEnd(&mut *slots[s].z),
                    H::BInit(..) => Rs::inflateBackEnd(&mut *slots[s].z),
                    _ => Rs::inflateEnd(&mut *slots[s].z),
                };
                if ctl.live.len() != live0 {
                    return Err(format!("step {hi} {h:?} failed with {}; End on the faulted stream (returned {}) released {} block(s) that belong to another stream", rc_name(ret), rc_name(e), live0 - ctl.live.len()));
                }
                if e != Z_STREAM_ERROR && e != Z_OK {
                    return Err(format!("End on the faulted stream returned {}", rc_name(e)));
                }
                slots[s].kind = Kind::Empty;
                // re-initialisation must work once memory is available again
                if fail_from.is_none() {
                    let r = match *h {
                        H::DCopy(a, b) => {
                            slots[b].z = zeroed_stream();
                            let pa: *mut z_stream = &mut *slots[a].z;
                            let r = Rs::deflateCopy(&mut *slots[b].z, pa);
                            if r == Z_OK {
                                slots[b].kind = Kind::Deflate;
                                slots[b].pos = slots[a].pos;
                                slots[b].given = slots[a].given;
                                slots[b].data = slots[a].data;
                            }
                            r
                        }
                        H::ICopy(a, b) => {
                            slots[b].z = zeroed_stream();
                            let pa: *const z_stream = &*slots[a].z;
                            let r = Rs::inflateCopy(&mut *slots[b].z, pa);
                            if r == Z_OK {
                                slots[b].kind = Kind::Inflate;
                                slots[b].pos = slots[a].pos;
                                slots[b].data = slots[a].data;
                            }
                            r
                        }
                        other => do_init(&mut slots, other, &mut ctl, window_buf.as_mut_ptr()),
                    };
                    if r != Z_OK {
                        return Err(format!("step {hi} {h:?}: retry after the single allocation failure returned {}", rc_name(r)));
                    }
                }
            }
        }
        for s in slots.iter_mut() {
            match s.kind {
                Kind::Deflate => {
                    Rs::deflateEnd(&mut *s.z);
                }
                Kind::Inflate => {
                    Rs::inflateEnd(&mut *s.z);
                }
                Kind::Back => {
                    Rs::inflateBackEnd(&mut *s.z);
                }
                Kind::Empty => {}
            }
            s.kind = Kind::Empty;
        }
        Rs::deflateEnd(&mut *by);
        if !ctl.errors.is_empty() {
            return Err(format!("allocator discipline: {:?}", ctl.errors));
        }
        if !ctl.live.is_empty() {
            return Err(format!("{} block(s) ({} bytes) still allocated after every stream was ended", ctl.live.len(), ctl.live_bytes()));
        }
        if ctl.total_allocs != ctl.total_frees {
            return Err(format!("{} allocations but {} frees", ctl.total_allocs, ctl.total_frees));
        }
        if !by_ctl.live.is_empty() || !by_ctl.errors.is_empty() {
            return Err(format!("bystander allocator disturbed: {} live, {:?}", by_ctl.live.len(), by_ctl.errors));
        }
        Ok(Outcome { rets, requests: ctl.requests, bystander_out: by_out })
    }
}

unsafe fn step_deflate(sl: &mut Slot, op: MOp, env: &MEnv) -> i32 {
    match op {
        MOp::Call { flush, inn, room } => {
            let add = if inn == usize::MAX { (sl.data.len() - sl.given).min(400) } else { inn.min(sl.data.len() - sl.given) };
            sl.given += add;
            let room_n = if room == AMPLE { 16384 } else { room };
            let chunk = &sl.data[sl.pos..sl.given];
            sl.z.next_in = env.ain.put(chunk, true);
            sl.z.avail_in = chunk.len() as u32;
            sl.z.next_out = env.aout.at_end(room_n);
            sl.z.avail_out = room_n as u32;
            let r = Rs::deflate(&mut *sl.z, flush);
            sl.pos += chunk.len() - sl.z.avail_in as usize;
            r
        }
        MOp::Params(l, s) => {
            sl.z.avail_in = 0;
            sl.z.next_out = env.aout.at_end(16384);
            sl.z.avail_out = 16384;
            Rs::deflateParams(&mut *sl.z, l, s)
        }
        MOp::SetDict(n) => Rs::deflateSetDictionary(&mut *sl.z, env.aux.put(&env.dict[..n], true), n as u32),
        MOp::Tune(a, b, c, d) => Rs::deflateTune(&mut *sl.z, a, b, c, d),
        _ => 0,
    }
}

unsafe fn step_inflate(sl: &mut Slot, op: MOp, env: &MEnv) -> i32 {
    match op {
        MOp::Call { flush, inn, room } => {
            let take = if inn == usize::MAX { sl.data.len() - sl.pos } else { inn.min(sl.data.len() - sl.pos) };
            let room_n = if room == AMPLE { 70000 } else { room };
            let chunk = &sl.data[sl.pos..sl.pos + take];
            sl.z.next_in = env.ain.put(chunk, true);
            sl.z.avail_in = take as u32;
            sl.z.next_out = env.aout.at_end(room_n);
            sl.z.avail_out = room_n as u32;
            let r = Rs::inflate(&mut *sl.z, flush);
            sl.pos += take - sl.z.avail_in as usize;
            r
        }
        MOp::SetDict(n) => Rs::inflateSetDictionary(&mut *sl.z, env.aux.put(&env.dict[..n], true), n as u32),
        _ => 0,
    }
}

fn histories(depth: usize) -> Vec<(String, Vec<H>)> {
    let nf = MOp::Call { flush: Z_NO_FLUSH, inn: 400, room: AMPLE };
    let sy = MOp::Call { flush: Z_SYNC_FLUSH, inn: 100, room: AMPLE };
    let tiny = MOp::Call { flush: Z_NO_FLUSH, inn: 300, room: 1 };
    let fin = MOp::Call { flush: Z_FINISH, inn: usize::MAX, room: AMPLE };
    let ia = MOp::Call { flush: Z_NO_FLUSH, inn: 60, room: 100 };
    let ib = MOp::Call { flush: Z_NO_FLUSH, inn: usize::MAX, room: AMPLE };
    let mut v: Vec<(String, Vec<H>)> = vec![];
    for c in 0..DCFGS.len() {
        v.push((format!("deflate init+end cfg{c}"), vec![H::DInit(0, c), H::End(0)]));
        v.push((format!("deflate init+calls+end cfg{c}"), vec![H::DInit(0, c), H::D(0, nf), H::D(0, sy), H::D(0, fin), H::End(0)]));
        v.push((format!("deflate copy mid-stream cfg{c}"), vec![H::DInit(0, c), H::D(0, nf), H::D(0, tiny), H::DCopy(0, 1), H::D(0, sy), H::D(1, sy), H::D(1, fin), H::End(1), H::D(0, fin), H::End(0)]));
        v.push((format!("deflate copy then end original first cfg{c}"), vec![H::DInit(0, c), H::D(0, nf), H::DCopy(0, 1), H::End(0), H::D(1, nf), H::D(1, fin), H::End(1)]));
        v.push((format!("deflate reset/params/dict cfg{c}"), vec![H::DInit(0, c), H::D(0, MOp::SetDict(600)), H::D(0, nf), H::D(0, MOp::Params(9, 0)), H::D(0, sy), H::DReset(0), H::D(0, MOp::Tune(4, 4, 8, 4)), H::D(0, nf), H::D(0, fin), H::End(0)]));
        v.push((format!("two deflate streams + copy chain cfg{c}"), vec![H::DInit(0, c), H::DInit(1, (c + 1) % DCFGS.len()), H::D(0, nf), H::D(1, nf), H::DCopy(1, 2), H::D(2, fin), H::End(2), H::DCopy(0, 2), H::End(0), H::End(1), H::D(2, fin), H::End(2)]));
    }
    for wb in [15, -15, 31, 47] {
        v.push((format!("inflate init+end wb{wb}"), vec![H::IInit(0, wb), H::End(0)]));
        v.push((format!("inflate init+calls+end wb{wb}"), vec![H::IInit(0, wb), H::I(0, ia), H::I(0, ib), H::End(0)]));
        v.push((format!("inflate copy mid-stream wb{wb}"), vec![H::IInit(0, wb), H::I(0, ia), H::ICopy(0, 1), H::I(0, ia), H::I(1, ib), H::End(1), H::I(0, ib), H::End(0)]));
        v.push((format!("inflate copy, end original first wb{wb}"), vec![H::IInit(0, wb), H::I(0, ia), H::ICopy(0, 1), H::End(0), H::I(1, ib), H::End(1)]));
        v.push((format!("inflate reset wb{wb}"), vec![H::IInit(0, wb), H::I(0, ia), H::IReset(0), H::I(0, ib), H::End(0)]));
        v.push((format!("inflate + deflate sharing the allocator wb{wb}"), vec![H::IInit(0, wb), H::DInit(1, 0), H::I(0, ia), H::D(1, nf), H::ICopy(0, 2), H::End(0), H::D(1, fin), H::End(1), H::I(2, ib), H::End(2)]));
    }
    // generated: every sequence of <= depth abstract operations on one logical stream - calls, dictionary,
    // parameter change, reset, "copy and carry on with the copy" (the original is ended), "copy and end the copy" -
    // followed by a final call and End
    #[derive(Clone, Copy)]
    enum A {
        Op(MOp),
        Reset,
        CopyGo,
        CopyEnd,
    }
    let dalpha = [A::Op(nf), A::Op(sy), A::Op(tiny), A::Op(fin), A::Op(MOp::SetDict(600)), A::Op(MOp::Params(9, 0)), A::Op(MOp::Params(0, 0)), A::Reset, A::CopyGo, A::CopyEnd];
    let ialpha = [A::Op(ia), A::Op(ib), A::Op(MOp::Call { flush: Z_NO_FLUSH, inn: 10, room: 1 }), A::Reset, A::CopyGo, A::CopyEnd];
    for (deflate, n_cfg) in [(true, 3usize), (false, 3)] {
        for cfg in 0..n_cfg {
            let alpha: &[A] = if deflate { &dalpha } else { &ialpha };
            sequences(alpha, depth, |q| {
                if q.is_empty() {
                    return;
                }
                let mut h = vec![if deflate { H::DInit(0, [0usize, 1, 2][cfg]) } else { H::IInit(0, [15, -15, 31][cfg]) }];
                let mut cur = 0usize;
                let mut tag = String::new();
                for a in q {
                    match *a {
                        A::Op(m) => {
                            h.push(if deflate { H::D(cur, m) } else { H::I(cur, m) });
                            tag.push_str(&m.tag());
                        }
                        A::Reset => {
                            h.push(if deflate { H::DReset(cur) } else { H::IReset(cur) });
                            tag.push_str("reset");
                        }
                        A::CopyGo => {
                            // the other slot is always free: every copy is followed by the end of one of the two
                            let next = 1 - cur;
                            h.push(if deflate { H::DCopy(cur, next) } else { H::ICopy(cur, next) });
                            h.push(H::End(cur));
                            cur = next;
                            tag.push_str("copy-go");
                        }
                        A::CopyEnd => {
                            let next = 1 - cur;
                            h.push(if deflate { H::DCopy(cur, next) } else { H::ICopy(cur, next) });
                            h.push(H::End(next));
                            tag.push_str("copy-end");
                        }
                    }
                    tag.push(';');
                }
                h.push(if deflate { H::D(cur, fin) } else { H::I(cur, ib) });
                h.push(H::End(cur));
                v.push((format!("generated {} cfg{cfg} [{tag}]", if deflate { "deflate" } else { "inflate" }), h));
            });
        }
    }
    for wbits in [8, 15] {
        v.push((format!("inflateBackInit/End wbits{wbits}"), vec![H::BInit(0, wbits), H::End(0)]));
        v.push((format!("inflateBackInit twice wbits{wbits}"), vec![H::BInit(0, wbits), H::BInit(1, wbits), H::End(1), H::End(0)]));
    }
    v
}

// ------------------------------------------------------------------------------------------------
// gz layer under the global allocator

#[derive(Clone, Copy, Debug)]
enum G {
    Buffer(u32),
    Read(usize),
    Getc,
    Ungetc,
    Gets,
    Write(usize),
    /// gzwrite with a length that does not fit in an int: refused with an error message (which is allocated)
    WriteHuge,
    Putc,
    Puts,
    Flush,
    Seek(i64),
    Rewind,
    Direct,
    SetParams,
}

fn memfd(content: &[u8]) -> i32 {
    unsafe {
        let fd = libc::memfd_create(b"zverif\0".as_ptr() as *const _, 0);
        assert!(fd >= 0);
        let mut off = 0;
        while off < content.len() {
            let n = libc::write(fd, content[off..].as_ptr() as *const _, content.len() - off);
            assert!(n > 0);
            off += n as usize;
        }
        libc::lseek(fd, 0, libc::SEEK_SET);
        fd
    }
}

struct GzOutcome {
    requests: u64,
    opened: bool,
}

/// run one gz history under a fault plan. Nothing in here may allocate harness memory while accounting is active.
fn run_gz(write_mode: bool, by_path: bool, ops: &[G], fail_at: Option<u64>, fail_from: Option<u64>, file: &[u8], path: &CString, mode: &CString, buf: &mut [u8], payload: &[u8]) -> Result<GzOutcome, String> {
    unsafe {
        let fd = if by_path { -1 } else { memfd(if write_mode { &[] } else { file }) };
        mem::g_begin(fail_at, fail_from, 0xCD);
        let f = if by_path { Rs::gzopen(path.as_ptr(), mode.as_ptr()) } else { Rs::gzdopen(fd, mode.as_ptr()) };
        let mut err: Option<&'static str> = None;
        let mut faults_seen = mem::g_stats_failed();
        if f.is_null() {
            let st = mem::g_end();
            if !by_path {
                libc::close(fd);
            }
            if st.failed == 0 {
                return Err("gzopen/gzdopen returned NULL although no allocation failed".into());
            }
            if st.live != 0 || st.allocs != st.frees {
                return Err(format!("failed gzopen leaked: {} bytes live, {} allocations / {} frees", st.live, st.allocs, st.frees));
            }
            return Ok(GzOutcome { requests: st.requests, opened: false });
        }
        if faults_seen > 0 {
            err = Some("gzopen/gzdopen returned a handle although one of its allocations failed");
        }
        for op in ops {
            let r: i64 = match *op {
                G::Buffer(n) => Rs::gzbuffer(f, n) as i64,
                G::Read(n) => Rs::gzread(f, buf.as_mut_ptr() as *mut _, n as u32) as i64,
                G::Getc => Rs::gzgetc(f) as i64,
                G::Ungetc => Rs::gzungetc(b'x' as i32, f) as i64,
                G::Gets => {
                    if Rs::gzgets(f, buf.as_mut_ptr() as *mut _, 40).is_null() {
                        -1
                    } else {
                        0
                    }
                }
                G::Write(n) => Rs::gzwrite(f, payload.as_ptr() as *const _, n as u32) as i64,
                G::WriteHuge => Rs::gzwrite(f, payload.as_ptr() as *const _, 0x8000_0000u32) as i64,
                G::Putc => Rs::gzputc(f, b'q' as i32) as i64,
                G::Puts => Rs::gzputs(f, b"hello gz\n\0".as_ptr() as *const _) as i64,
                G::Flush => Rs::gzflush(f, Z_SYNC_FLUSH) as i64,
                G::Seek(o) => Rs::gzseek(f, o as _, libc::SEEK_CUR) as i64,
                G::Rewind => Rs::gzrewind(f) as i64,
                G::Direct => Rs::gzdirect(f) as i64,
                G::SetParams => Rs::gzsetparams(f, 9, 0) as i64,
            };
            let now = mem::g_stats_failed();
            if now > faults_seen {
                faults_seen = now;
                // the operation that hit the failure must report an error
                let ok = match *op {
                    G::Read(_) | G::Getc | G::Ungetc | G::Gets | G::Putc | G::Puts | G::Seek(_) | G::Buffer(_) | G::Flush | G::Rewind | G::SetParams => r < 0,
                    G::Write(_) | G::WriteHuge => r <= 0,
                    G::Direct => true,
                };
                // ... through its return value or, when it still delivered data (e.g. the bytes decoded before a
                // truncated member's end, where only the allocation of the error text failed), through gzerror
                let mut errnum = 0;
                let _ = Rs::gzerror(f, &mut errnum);
                if !ok && errnum != Z_MEM_ERROR && err.is_none() {
                    err = Some("a gz call during which an allocation failed reported success and gzerror does not report Z_MEM_ERROR");
                }
            }
        }
        let _ = Rs::gzclose(f);
        let st = mem::g_end();
        if by_path {
            let _ = std::fs::remove_file(path.to_str().unwrap_or(""));
        }
        if let Some(e) = err {
            return Err(e.to_string());
        }
        if st.live != 0 || st.allocs != st.frees {
            return Err(format!("after gzclose {} bytes are still allocated ({} allocations, {} frees)", st.live, st.allocs, st.frees));
        }
        Ok(GzOutcome { requests: st.requests, opened: true })
    }
}

pub fn run(ctx: &mut Ctx) {
    let env = MEnv::new();
    let mut plain = text(3, 2500);
    plain.extend(lcg_bytes(4, 500));
    let denv = Env::new();
    let cfg = DCfg { level: 6, strategy: 0, wbits: 15, mem_level: 8, wrap: Wrap::Zlib };
    let packed_z = run_deflate::<Ng>(&cfg, &plain, &DSched::one_shot(), &denv, &DExtra::default(), None).expect("ref").out;
    let cfg_raw = DCfg { wrap: Wrap::Raw, ..cfg };
    let packed_raw = run_deflate::<Ng>(&cfg_raw, &plain, &DSched::one_shot(), &denv, &DExtra::default(), None).expect("ref").out;
    let cfg_gz = DCfg { wrap: Wrap::Gzip, ..cfg };
    let packed_gz = run_deflate::<Ng>(&cfg_gz, &plain, &DSched::one_shot(), &denv, &DExtra::default(), None).expect("ref").out;
    drop(denv);
    for (name, hist) in histories(if ctx.quick() { 2 } else { 3 }) {
        let packed: &[u8] = if name.contains("wb-15") {
            &packed_raw
        } else if name.contains("wb31") {
            &packed_gz
        } else {
            &packed_z
        };
        // fault-free run: learn N and the bystander's solo output
        let base = match run_history(&hist, None, None, &plain, packed, &env) {
            Ok(b) => b,
            Err(e) => {
                ctx.case("c-api-history", || format!("history[{name}] without faults"), |_| Err(e.clone()));
                continue;
            }
        };
        ctx.case(
            "c-api-history",
            || format!("history[{name}] {hist:?} without faults ({} allocation requests)", base.requests),
            |c| {
                c.exec();
                let r = run_history(&hist, None, None, &plain, packed, &env)?;
                c.outcome(hash_u32s(&r.rets.iter().map(|&x| x as u32).collect::<Vec<_>>()));
                c.validated();
                Ok(())
            },
        );
        for k in 0..base.requests {
            for from in [false, true] {
                ctx.case(
                    "c-api-fault",
                    || format!("history[{name}] {hist:?} ; {} request {k} of {}", if from { "failing every allocation from" } else { "failing only allocation" }, base.requests),
                    |c| {
                        c.exec();
                        c.nontrivial();
                        let r = run_history(&hist, if from { None } else { Some(k) }, if from { Some(k) } else { None }, &plain, packed, &env)?;
                        if r.bystander_out != base.bystander_out {
                            return Err("the bystander stream's output changed when another stream's allocation failed".into());
                        }
                        let mut key: Vec<u32> = r.rets.iter().map(|&x| x as u32).collect();
                        key.push(k as u32);
                        key.push(from as u32);
                        c.outcome(hash_u32s(&key));
                        c.state(hash_u32s(&[r.rets.iter().filter(|&&x| x == Z_MEM_ERROR).count() as u32, from as u32]));
                        c.validated();
                        Ok(())
                    },
                );
            }
        }
    }
    // every init entry point with EVERY argument value of a range (legal and illegal), with no fault and with the first /
    // second / every allocation request failing: whatever the verdict, a rejected init holds no block of the caller's
    // allocator when it returns, End on the rejected stream releases nothing, an accepted one is balanced after End
    {
        let mut inits: Vec<(String, u8, [i32; 5])> = vec![];
        let mut wbs: Vec<i32> = (-72..=136).collect();
        wbs.extend([i32::MIN, i32::MIN + 8, i32::MAX, i32::MAX - 7, 256, 264, 1 << 16, -(1 << 16)]);
        for &wb in &wbs {
            inits.push((format!("inflateInit2_(windowBits={wb})"), 0, [wb, 0, 0, 0, 0]));
        }
        for wb in -20..=48 {
            for (level, method, ml, st) in [(6, 8, 8, 0), (0, 8, 1, 4), (9, 8, 9, 1), (10, 8, 8, 0), (-2, 8, 8, 0), (6, 7, 8, 0), (6, 8, 0, 0), (6, 8, 10, 0), (6, 8, 8, 5), (6, 8, 8, -1)] {
                inits.push((format!("deflateInit2_(level={level}, method={method}, windowBits={wb}, memLevel={ml}, strategy={st})"), 1, [level, method, wb, ml, st]));
            }
        }
        for wb in -2..=24 {
            for null_window in [0, 1] {
                inits.push((format!("inflateBackInit_(windowBits={wb}, window={})", if null_window == 1 { "NULL" } else { "valid" }), 2, [wb, null_window, 0, 0, 0]));
            }
        }
        for (name, which, a) in &inits {
            for plan in 0..4u64 {
                ctx.case(
                    "init-verdict-balanced",
                    || format!("{name} ; End, allocator plan: {}", ["no fault", "request 0 fails", "request 1 fails", "every request fails"][plan as usize]),
                    |c| unsafe {
                        c.exec();
                        let mut ctl = AllocCtl::new(0xC7);
                        ctl.strict_uaf = true;
                        match plan {
                            1 => ctl.fail_at = Some(0),
                            2 => ctl.fail_at = Some(1),
                            3 => ctl.fail_from = Some(0),
                            _ => {}
                        }
                        let mut z = wired(&mut ctl);
                        let window = env.aux.at_end(1 << 15);
                        let r = match which {
                            0 => Rs::inflateInit2_(&mut *z, a[0], Rs::zlibVersion(), STREAM_SIZE),
                            1 => Rs::deflateInit2_(&mut *z, a[0], a[1], a[2], a[3], a[4], Rs::zlibVersion(), STREAM_SIZE),
                            _ => Rs::inflateBackInit_(&mut *z, a[0], if a[1] == 1 { std::ptr::null_mut() } else { window }, Rs::zlibVersion(), STREAM_SIZE),
                        };
                        if !matches!(r, Z_OK | Z_STREAM_ERROR | Z_MEM_ERROR | Z_VERSION_ERROR) {
                            return Err(format!("init returned undocumented {}", rc_name(r)));
                        }
                        if r == Z_MEM_ERROR && ctl.failed == 0 {
                            return Err("Z_MEM_ERROR although no allocation request failed".into());
                        }
                        if r == Z_OK && ctl.failed != 0 {
                            return Err("Z_OK although an allocation request failed".into());
                        }
                        if r != Z_OK && !ctl.live.is_empty() {
                            return Err(format!("init returned {} but holds {} block(s) ({} bytes) of the caller's allocator", rc_name(r), ctl.live.len(), ctl.live_bytes()));
                        }
                        let e = match which {
                            0 => Rs::inflateEnd(&mut *z),
                            1 => Rs::deflateEnd(&mut *z),
                            _ => Rs::inflateBackEnd(&mut *z),
                        };
                        if r != Z_OK && e != Z_STREAM_ERROR {
                            return Err(format!("End after a rejected init ({}) returned {}", rc_name(r), rc_name(e)));
                        }
                        if r == Z_OK && e != Z_OK {
                            return Err(format!("End after a successful init returned {}", rc_name(e)));
                        }
                        if !ctl.errors.is_empty() {
                            return Err(format!("allocator discipline: {:?}", ctl.errors));
                        }
                        if !ctl.live.is_empty() || ctl.total_allocs != ctl.total_frees {
                            return Err(format!("{} block(s) still allocated after End ({} allocations, {} frees)", ctl.live.len(), ctl.total_allocs, ctl.total_frees));
                        }
                        c.outcome(hash_u32s(&[*which as u32, r as u32, plan as u32, ctl.total_allocs as u32]));
                        c.validated();
                        Ok(())
                    },
                );
            }
        }
    }
    // deflateEnd in EVERY state a deflate call can return in: a gzip stream whose header (extra / name / comment of
    // lengths around the 512-byte pending buffer of memLevel 1, with and without header CRC) is written through 1-,
    // 2-, 7-byte and ample rooms, ended after k calls for every small k: everything obtained is released by that End
    {
        use crate::refs::wrap::GzFields;
        for name_len in (0..=40).step_by(8).chain(440..=540) {
            for hcrc in [false, true] {
                for (fields, extra_len, comment_len) in [(0u8, 0usize, 0usize), (1, 30, 0), (2, 0, 25)] {
                    if fields != 0 && name_len % 3 != 0 {
                        continue;
                    }
                    for room in [1usize, 2, 7, 4096] {
                        for k in 0..=5usize {
                            ctx.case(
                                "end-in-every-state",
                                || format!("deflateInit2(gzip, memLevel 1) ; deflateSetHeader(name {name_len} bytes, extra {extra_len}, comment {comment_len}, hcrc {hcrc}) ; {k} x deflate(Z_NO_FLUSH, 50 bytes, room {room}) ; deflateEnd"),
                                |c| unsafe {
                                    c.exec();
                                    let mut ctl = AllocCtl::new(0xD3);
                                    ctl.strict_uaf = true;
                                    let mut z = wired(&mut ctl);
                                    let r = Rs::deflateInit2_(&mut *z, 6, 8, 31, 1, 0, Rs::zlibVersion(), STREAM_SIZE);
                                    if r != Z_OK {
                                        return Err(format!("deflateInit2 returned {}", rc_name(r)));
                                    }
                                    let f = GzFields { os: 3, hcrc, name: if name_len > 0 { Some(lcg_bytes(7, name_len).into_iter().map(|b| b | 1).collect()) } else { None }, extra: if extra_len > 0 { Some(vec![5; extra_len]) } else { None }, comment: if comment_len > 0 { Some(vec![b'c'; comment_len]) } else { None }, ..Default::default() };
                                    let mut hold = make_gz_header(&f);
                                    let r = Rs::deflateSetHeader(&mut *z, &mut *hold.head);
                                    if r != Z_OK {
                                        return Err(format!("deflateSetHeader returned {}", rc_name(r)));
                                    }
                                    let mut rets = vec![];
                                    for i in 0..k {
                                        z.next_in = env.ain.put(&plain[i * 50..i * 50 + 50], true);
                                        z.avail_in = 50;
                                        z.next_out = env.aout.at_end(room);
                                        z.avail_out = room as u32;
                                        rets.push(Rs::deflate(&mut *z, Z_NO_FLUSH) as u32);
                                    }
                                    let e = Rs::deflateEnd(&mut *z);
                                    if e != Z_OK && e != Z_DATA_ERROR {
                                        return Err(format!("deflateEnd returned {}", rc_name(e)));
                                    }
                                    if !ctl.errors.is_empty() {
                                        return Err(format!("allocator discipline: {:?}", ctl.errors));
                                    }
                                    if !ctl.live.is_empty() || ctl.total_allocs != ctl.total_frees {
                                        return Err(format!("deflateEnd returned {} but {} block(s) ({} bytes) obtained from the caller's allocator were not released", rc_name(e), ctl.live.len(), ctl.live_bytes()));
                                    }
                                    if !z.state.is_null() {
                                        return Err(format!("deflateEnd returned {} and left strm->state set", rc_name(e)));
                                    }
                                    rets.push(e as u32);
                                    c.outcome(hash_u32s(&rets));
                                    c.validated();
                                    Ok(())
                                },
                            );
                        }
                    }
                }
            }
        }
    }
    // a caller that supplies only ONE of zalloc / zfree (zlib fills the other in with its default): whatever the
    // library takes from the caller's zalloc must come back through the caller's zfree with the caller's opaque,
    // nothing else may be handed to the caller's zfree, across init / calls / copy / End of each kind of stream
    for kind in ["deflate", "inflate", "inflateBack"] {
        for only_alloc in [true, false] {
            for with_copy in [false, true] {
                if kind == "inflateBack" && with_copy {
                    continue;
                }
                ctx.case(
                    "partial-allocator",
                    || format!("{kind}: stream with only {} supplied ; init ; one call{} ; End", if only_alloc { "zalloc" } else { "zfree" }, if with_copy { " ; copy ; End of the copy" } else { "" }),
                    |c| unsafe {
                        c.exec();
                        let mut s = Strm::guarded(0x6E);
                        if only_alloc {
                            s.z.zfree = None;
                        } else {
                            s.z.zalloc = None;
                        }
                        let window = env.aux.at_end(1 << 9);
                        let r = match kind {
                            "deflate" => Rs::deflateInit2_(s.p(), 6, 8, 9, 1, 0, Rs::zlibVersion(), STREAM_SIZE),
                            "inflate" => Rs::inflateInit2_(s.p(), 15, Rs::zlibVersion(), STREAM_SIZE),
                            _ => Rs::inflateBackInit_(s.p(), 9, window, Rs::zlibVersion(), STREAM_SIZE),
                        };
                        if r != Z_OK {
                            return Err(format!("init returned {}", rc_name(r)));
                        }
                        let pin = env.ain.put(&plain[..200], true);
                        let pout = env.aout.at_end(4096);
                        s.z.next_in = pin;
                        s.z.avail_in = 200;
                        s.z.next_out = pout;
                        s.z.avail_out = 4096;
                        match kind {
                            "deflate" => {
                                Rs::deflate(s.p(), Z_SYNC_FLUSH);
                            }
                            "inflate" => {
                                Rs::inflate(s.p(), Z_NO_FLUSH);
                            }
                            _ => {}
                        }
                        let mut d = Strm::plain();
                        if with_copy {
                            let r = if kind == "deflate" { Rs::deflateCopy(d.p(), s.p()) } else { Rs::inflateCopy(d.p(), s.p()) };
                            if r != Z_OK {
                                return Err(format!("copy returned {}", rc_name(r)));
                            }
                        }
                        let e = match kind {
                            "deflate" => Rs::deflateEnd(s.p()),
                            "inflate" => Rs::inflateEnd(s.p()),
                            _ => Rs::inflateBackEnd(s.p()),
                        };
                        if e != Z_OK && !(kind == "deflate" && e == Z_DATA_ERROR) {
                            return Err(format!("End returned {}", rc_name(e)));
                        }
                        if with_copy {
                            if kind == "deflate" {
                                Rs::deflateEnd(d.p());
                            } else {
                                Rs::inflateEnd(d.p());
                            }
                        }
                        let ctl = s.ctl.as_ref().unwrap();
                        if !ctl.errors.is_empty() || !ctl.live.is_empty() || ctl.total_allocs != ctl.total_frees {
                            return Err(format!("caller's allocator after End: {} blocks taken, {} returned, {} still held; errors {:?}", ctl.total_allocs, ctl.total_frees, ctl.live.len(), ctl.errors));
                        }
                        c.outcome(mix(ctl.total_allocs, only_alloc as u64));
                        c.nontrivial();
                        c.validated();
                        Ok(())
                    },
                );
            }
        }
    }
    // gz layer
    let payload = text(7, 5000);
    let mut buf = vec![0u8; 8192];
    // every history of up to 2 (thorough: 3) operations over the read / write alphabets
    let depth = if ctx.quick() { 2 } else { 4 };
    let ralpha = [G::Buffer(8), G::Read(1), G::Read(300), G::Read(5000), G::Getc, G::Ungetc, G::Gets, G::Seek(500), G::Rewind, G::Direct];
    let walpha = [G::Buffer(8), G::Write(1), G::Write(5000), G::WriteHuge, G::Putc, G::Puts, G::Flush, G::Seek(100), G::SetParams, G::Direct];
    let mut read_hist: Vec<(String, Vec<G>)> = vec![("r".into(), vec![])];
    sequences(&ralpha, depth, |q| read_hist.push((format!("r{}", read_hist.len()), q.to_vec())));
    read_hist.push(("seek-read".into(), vec![G::Read(10), G::Seek(500), G::Read(10), G::Rewind, G::Read(10)]));
    let mut write_hist: Vec<(String, Vec<G>)> = vec![("w".into(), vec![])];
    sequences(&walpha, depth, |q| write_hist.push((format!("w{}", write_hist.len()), q.to_vec())));
    write_hist.push(("setparams".into(), vec![G::Write(10), G::SetParams, G::Write(10), G::Flush, G::Write(300)]));
    write_hist.push(("refused write, nothing else".into(), vec![G::WriteHuge]));
    write_hist.push(("refused write between writes".into(), vec![G::Write(10), G::WriteHuge, G::Write(10), G::Flush]));
    let dir = std::env::temp_dir();
    // what the file holds when reading (the inflate state is set up before the format is known, and is used or
    // not depending on the content), and how the file is opened when writing
    let mut two = packed_gz.clone();
    two.extend_from_slice(&packed_gz);
    let mut trailing = packed_gz.clone();
    trailing.extend_from_slice(b"trailing garbage after the member");
    let read_files: Vec<(&str, Vec<u8>)> = vec![("gzip", packed_gz.clone()), ("plain", text(5, 3000)), ("empty", vec![]), ("one byte 1f", vec![0x1f]), ("two members", two), ("gzip+garbage", trailing), ("truncated gzip", packed_gz[..packed_gz.len() / 2].to_vec())];
    let write_modes: Vec<(&str, Vec<u8>)> = vec![("wb", vec![]), ("ab", vec![]), ("wT", vec![]), ("wb9f", vec![])];
    for (write_mode, hists) in [(false, &read_hist), (true, &write_hist)] {
        for (hname, ops) in hists.iter() {
          for (vname, gz_file) in if write_mode { write_modes.iter() } else { read_files.iter() } {
            for by_path in [false, true] {
                let mode = CString::new(if write_mode { *vname } else { "rb" }).unwrap();
                let shard = match ctx.mode {
                    Mode::Worker { shard, .. } => shard,
                    _ => 99,
                };
                let path_str = dir.join(format!("zverif-c18-{}-{}-{}-{}-{}.gz", std::process::id(), shard, hname, write_mode as u8, vname.replace(' ', "_")));
                let path = CString::new(path_str.to_str().unwrap()).unwrap();
                let prepare = |p: &std::path::Path| {
                    if by_path && !write_mode {
                        std::fs::write(p, gz_file).unwrap();
                    }
                };
                prepare(&path_str);
                let base = run_gz(write_mode, by_path, ops, None, None, gz_file, &path, &mode, &mut buf, &payload);
                let n = match &base {
                    Ok(b) => b.requests,
                    Err(_) => 0,
                };
                {
                    let buf_cell = std::cell::RefCell::new(&mut buf);
                    ctx.case(
                        "gz-history",
                        || format!("gz {} [{vname}] via {} ; {ops:?} ; without faults ({n} allocation requests)", if write_mode { "write" } else { "read" }, if by_path { "gzopen" } else { "gzdopen" }),
                        |c| {
                            c.exec();
                            prepare(&path_str);
                            let r = run_gz(write_mode, by_path, ops, None, None, gz_file, &path, &mode, &mut buf_cell.borrow_mut(), &payload)?;
                            if !r.opened {
                                return Err("could not open".into());
                            }
                            c.outcome(r.requests);
                            c.validated();
                            Ok(())
                        },
                    );
                    for k in 0..n {
                        for from in [false, true] {
                            ctx.case(
                                "gz-fault",
                                || format!("gz {} [{vname}] via {} ; {ops:?} ; {} request {k} of {n}", if write_mode { "write" } else { "read" }, if by_path { "gzopen" } else { "gzdopen" }, if from { "failing every allocation from" } else { "failing only allocation" }),
                                |c| {
                                    c.exec();
                                    c.nontrivial();
                                    prepare(&path_str);
                                    let r = run_gz(write_mode, by_path, ops, if from { None } else { Some(k) }, if from { Some(k) } else { None }, gz_file, &path, &mode, &mut buf_cell.borrow_mut(), &payload)?;
                                    c.outcome(mix(r.requests, mix(k, (from as u64) << 1 | r.opened as u64)));
                                    c.state(hash_u32s(&[r.opened as u32, from as u32, write_mode as u32]));
                                    c.validated();
                                    Ok(())
                                },
                            );
                        }
                    }
                }
                let _ = std::fs::remove_file(&path_str);
            }
          }
        }
    }
}
