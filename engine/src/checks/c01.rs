//! C01 — lossless round trip for every input, configuration and call schedule (bounded).

use crate::api::*;
use crate::dfam;
use crate::drv::*;
use crate::engine::*;
use crate::inputs::Wrap;
use crate::refs::inflate_ref::RefOpts;
use crate::refs::wrap as r3;

pub const INFO: CheckInfo = CheckInfo {
    prop: "C01",
    level: "model_checking",
    rule: "bounded exhaustive enumeration of (configuration x input x call schedule): families tiny (all strings over small alphabets x 300 configs x every single deviation: split position, flush kind at every position, output room, parameter change), shape (boundary-forcing inputs for 512/1024-byte windows and 127/255-symbol blocks x 450 configs x lattice/every split), big (32 KiB window, inputs > 2 windows). Each compressed stream is decoded by zlib-rs (one call; on every 4th schedule also 1-byte input pieces and 1-byte output room) and by the independent reference decoder R2+R3; decoded bytes, stream-end and consumed length are compared with the input. distinct_nontrivial = distinct (compressed bytes, per-call observables) outcomes. States/transitions = abstract encoder states (status, last_flush, block_open, match_available, pending/lookahead/insert/sym_buf buckets, level, strategy, wrap) observed through hook H3 after every call.",
    assumptions: &[
        "inputs, configurations and schedules outside the enumerated families are not covered (in particular > 2 deviations on long inputs, inputs > 3 windows at windowBits >= 11 other than the listed shapes, sizes near 4 GiB)",
        "R2/R3 (independent RFC 1951/1950/1952 decoder) is trusted; it is cross-validated against zlib-ng at start-up",
    ],
    bound_quick: "tiny: (2,7)+(3,4)+(4,3) strings x 300 cfgs x SD(1); shape: ~50 inputs x 450 cfgs (stride 3) x lattice splits; big: 8 inputs x 49 cfgs x boundary splits",
    bound_thorough: "tiny: (2,10)+(3,6)+(4,5) strings x 300 cfgs x SD(1); shape: ~110 inputs x 450 cfgs x every split position; big: 11 inputs x 315 cfgs",
};

pub fn decode_ref(cfg_wrap: Wrap, data: &[u8]) -> r3::Wrapped {
    let o = RefOpts::zlib();
    match cfg_wrap {
        Wrap::Raw => r3::decode_raw(data, &o),
        Wrap::Zlib => r3::decode_zlib(data, &o, 7),
        Wrap::Gzip => r3::decode_gzip(data, &o),
    }
}

pub fn check_roundtrip(c: &mut Case, env: &Env, it: &dfam::DItem, t: &DTrace) -> Result<(), String> {
    let input = &it.inp.data;
    let n = input.len();
    let wbits = match it.sched_idx % 3 {
        0 => it.cfg.wbits,
        1 => 15,
        _ => it.cfg.wbits.max(9),
    };
    let mut wb = wb_for(it.cfg.wrap, wbits);
    if it.cfg.wrap != Wrap::Raw && it.sched_idx % 5 == 4 {
        wb = 32 + 15; // auto-detect
    }
    let ex = IExtra { expect_out: n, ..Default::default() };
    let mut scheds = vec![ISched::one_shot()];
    if it.sched_idx % 4 == 0 {
        scheds.push(ISched::uniform(1, AMPLE, Z_NO_FLUSH));
        scheds.push(ISched::uniform(AMPLE, if n > 8192 { 259 } else { 1 }, Z_NO_FLUSH));
        scheds.push(ISched::uniform(AMPLE, AMPLE, Z_FINISH));
    }
    for is in &scheds {
        c.exec();
        let d = run_inflate::<Rs>(wb, &t.out, is, env, &ex, None)?;
        if d.fin != Fin::StreamEnd {
            return Err(format!("decoding the {}-byte stream (wb {wb}, {}) ended with {:?} after {} of {} bytes, {} bytes out", t.out.len(), is.desc(), d.fin, d.consumed, t.out.len(), d.out.len()));
        }
        if d.out != *input {
            let k = d.out.iter().zip(input.iter()).position(|(a, b)| a != b).unwrap_or(d.out.len().min(n));
            return Err(format!("round trip differs at byte {k}: decoded {} bytes, input {} bytes (inflate schedule {})", d.out.len(), n, is.desc()));
        }
        if d.consumed != t.out.len() {
            return Err(format!("stream end after {} of {} compressed bytes", d.consumed, t.out.len()));
        }
    }
    // independent decoder
    match decode_ref(it.cfg.wrap, &t.out) {
        r3::Wrapped::Ok { out, used, .. } => {
            if out != *input || used != t.out.len() {
                return Err(format!("reference decoder R2: output {} bytes (equal to input: {}), used {} of {} bytes", out.len(), out == *input, used, t.out.len()));
            }
        }
        other => return Err(format!("reference decoder R2 rejects the stream zlib-rs produced: {}", describe_wrapped(&other))),
    }
    c.validated();
    Ok(())
}

pub fn describe_wrapped(w: &r3::Wrapped) -> String {
    match w {
        r3::Wrapped::Ok { out, used, .. } => format!("Ok(out={}, used={})", out.len(), used),
        r3::Wrapped::Short { out } => format!("Short(out={})", out.len()),
        r3::Wrapped::Bad { why, out } => format!("Bad({why}, out={})", out.len()),
        r3::Wrapped::NeedDict { dictid } => format!("NeedDict({dictid:#x})"),
    }
}

pub fn run(ctx: &mut Ctx) {
    let fams = dfam::build_depth(ctx.quick(), if ctx.quick() { 0 } else { 1 });
    let env = Env::new();
    // copies run with an allocator that pre-fills every block: what a duplicate forgot to carry over is then a known,
    // wrong value in every repetition (not whatever malloc happened to return)
    let mut env_fill = Env::new();
    env_fill.guarded_alloc = Some(0xC3);
    let sel = dfam::Sel { tiny: true, shapes: true, big: true, sweep: true, shape_cfg_stride: if ctx.quick() { 7 } else { 1 } };
    dfam::for_each(ctx, &fams, sel, |ctx, it| {
        ctx.case(
            it.fam,
            || it.desc(),
            |c| {
                c.exec();
                let ex = DExtra { probe: true, ..Default::default() };
                let t = run_deflate::<Rs>(&it.cfg, &it.inp.data, it.sched, &env, &ex, Some(c))?;
                c.outcome(t.outcome_hash());
                if it.sched_idx != 0 {
                    c.nontrivial();
                }
                check_roundtrip(c, &env, it, &t)?;
                // the same history with the stream duplicated after the k-th call and carried on by the copy, and with
                // the stream abandoned after the k-th call, reset and started over: what comes out round-trips too
                if it.sched.tail_room != AMPLE && it.sched.tail_room >= 2 && t.calls.len() > 3 && (it.sched_idx + it.inp.data.len()) % 5 == 0 {
                    for k in [1usize, 3] {
                        c.exec();
                        let tk = run_deflate::<Rs>(&it.cfg, &it.inp.data, it.sched, &env_fill, &DExtra { copy_after_call: k, ..Default::default() }, None)?;
                        check_roundtrip(c, &env, it, &tk).map_err(|e| format!("continued on a deflateCopy taken after call {k}: {e}"))?;
                        c.exec();
                        let tr = run_deflate::<Rs>(&it.cfg, &it.inp.data, it.sched, &env, &DExtra { reset_after_call: k, ..Default::default() }, None)?;
                        check_roundtrip(c, &env, it, &tr).map_err(|e| format!("written after a deflateReset that followed call {k}: {e}"))?;
                    }
                }
                Ok(())
            },
        );
    });
}
