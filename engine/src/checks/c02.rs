//! C02 — decompressing untrusted bytes is memory-safe, never aborts, terminates, documented status.

use crate::api::*;
use crate::drv::*;
use crate::engine::*;
use crate::mem::Arena;
use crate::zfam;
use crate::zgen::WrapKind;
use std::ffi::c_ulong;

pub const INFO: CheckInfo = CheckInfo {
    prop: "C02",
    level: "model_checking",
    rule: "every byte string of the decoder corpus (R4 streams in raw/zlib/gzip wrappers x {intact, trailing garbage, every truncation, every single-bit flip, byte substitutions}) and every byte string of length <= 2 (3 thorough), under every inflateInit2 mode, executed through: streaming inflate under schedules {one call, 1-byte input, 1-byte output, 0-byte output then ample, first call exactly 14/15/16 input bytes x 259/260/261 output bytes (fast-path entry thresholds), and for intact streams of <= 700 output bytes every position of the first output-room end and every uniform room 4..300}; uncompress / uncompress2 with destination sizes {0,1,exact-1,exact,ample}; zlib_rs::decompress_slice and Inflate::decompress; inflateGetHeader capture with capacities {NULL,0,1,len}; inflateBack (windowBits 8/9/10/15, window in both placements, one input slice and 1-byte slices) on every raw string. Every buffer handed to the library lies in a guard-paged arena, once with its END against a PROT_NONE page and once with its START right after one; stream state comes from a guard-paged garbage-filled allocator. Oracle: no signal (attributed to the case by the explorer), no panic, documented return code, cursors inside the buffers, totals consistent, bounded number of calls, progress on every call with input and room (bytes or H2 state change). Family primed-decoder: 0..=5 inflatePrime(16, v) calls (3 values) before every raw corpus stream, then inflate with ample / 261-byte / 1-byte rooms or inflateSync + inflate, under guard pages. distinct_nontrivial = distinct (verdict, output, consumed) outcomes.",
    assumptions: &["over-reads/over-writes smaller than the allocator's alignment slack inside one allocation are not visible to guard pages (the ASan pass of the thorough tier covers them when nightly is present)", "strings outside the corpus / longer than 3 bytes with > 1 fault are not covered"],
    bound_quick: "corpus programs <= 3 tokens, every mutation under end-placement one-shot; every 3rd mutation under the other schedules/placements; strings <= 2 bytes",
    bound_thorough: "every mutation under every schedule and placement; strings <= 3 bytes",
};

fn one_shot_helpers(c: &mut Case, env: &Env, bytes: &[u8], expect: usize) -> Result<(), String> {
    unsafe {
        for dest_len in [0usize, 1, expect.saturating_sub(1), expect, expect + 64] {
            let src = env.ain.put(bytes, env.at_end);
            let dst = env.aout.place(dest_len, env.at_end);
            let mut dl: c_ulong = dest_len as c_ulong;
            c.exec();
            let r = Rs::uncompress(dst, &mut dl, src, bytes.len() as c_ulong);
            if !matches!(r, Z_OK | Z_BUF_ERROR | Z_DATA_ERROR | Z_MEM_ERROR | Z_NEED_DICT) {
                return Err(format!("uncompress returned undocumented {}", rc_name(r)));
            }
            if dl as usize > dest_len {
                return Err(format!("uncompress reports {dl} bytes written into a {dest_len}-byte buffer"));
            }
            let mut dl: c_ulong = dest_len as c_ulong;
            let mut sl: c_ulong = bytes.len() as c_ulong;
            c.exec();
            let r2 = Rs::uncompress2(dst, &mut dl, src, &mut sl);
            if !matches!(r2, Z_OK | Z_BUF_ERROR | Z_DATA_ERROR | Z_MEM_ERROR | Z_NEED_DICT) {
                return Err(format!("uncompress2 returned undocumented {}", rc_name(r2)));
            }
            if dl as usize > dest_len || sl as usize > bytes.len() {
                return Err(format!("uncompress2 reports dest {dl}/{dest_len}, source {sl}/{}", bytes.len()));
            }
            if r != r2 {
                return Err(format!("uncompress ({}) and uncompress2 ({}) disagree", rc_name(r), rc_name(r2)));
            }
        }
    }
    Ok(())
}

fn rust_api(c: &mut Case, env: &Env, wb: i32, bytes: &[u8], expect: usize) -> Result<(), String> {
    // decompress_slice: zlib-wrapped only entry (config window_bits)
    let room = expect + 32;
    let dst = unsafe { std::slice::from_raw_parts_mut(env.aout.place(room, env.at_end), room) };
    let src = unsafe { std::slice::from_raw_parts(env.ain.put(bytes, env.at_end), bytes.len()) };
    c.exec();
    let (o, rc) = zlib_rs::decompress_slice(dst, src, zlib_rs::InflateConfig { window_bits: wb });
    let _ = (o.len(), rc);
    // streaming Rust wrapper with 3-byte input pieces and 5-byte output rooms
    let (hdr, wbits) = if wb < 0 { (false, (-wb) as u8) } else { (true, wb as u8) };
    if (!hdr && !(8..=15).contains(&wbits)) || (hdr && wbits == 0) {
        return Ok(());
    }
    let mut inf = zlib_rs::Inflate::new(hdr, wbits);
    let mut pos = 0;
    let mut total_out = 0u64;
    let mut calls = 0;
    loop {
        let take = 3.min(bytes.len() - pos);
        let src = unsafe { std::slice::from_raw_parts(env.ain.put(&bytes[pos..pos + take], env.at_end), take) };
        let dst = unsafe { std::slice::from_raw_parts_mut(env.aout.place(5, env.at_end), 5) };
        let (ti, to) = (inf.total_in(), inf.total_out());
        c.exec();
        let r = inf.decompress(src, dst, zlib_rs::InflateFlush::NoFlush);
        calls += 1;
        let din = (inf.total_in() - ti) as usize;
        let dout = (inf.total_out() - to) as usize;
        if din > take || dout > 5 {
            return Err(format!("Inflate::decompress reports {din} consumed of {take}, {dout} produced of 5"));
        }
        pos += din;
        total_out += dout as u64;
        match r {
            Ok(zlib_rs::Status::StreamEnd) | Err(_) => break,
            Ok(_) => {
                if din == 0 && dout == 0 && pos == bytes.len() {
                    break;
                }
                if din == 0 && dout == 0 && take > 0 {
                    return Err(format!("Inflate::decompress made no progress with {take} input bytes and 5 bytes of room ({r:?})"));
                }
            }
        }
        // every call consumes or produces at least one byte; a deflate stream of n bytes encodes at most ~ 258*8*n bytes
        if calls > bytes.len() + 258 * 8 * bytes.len() / 5 + 1000 {
            return Err("Inflate::decompress does not terminate".into());
        }
    }
    let _ = total_out;
    Ok(())
}

fn header_capture(c: &mut Case, env: &Env, cap_arena: &[Arena; 3], bytes: &[u8], expect: usize) -> Result<(), String> {
    unsafe {
        for (ci, cap) in [None, Some(0usize), Some(1), Some(6), Some(1), Some(6)].into_iter().enumerate() {
            let mut s = Strm::guarded(0x99);
            if Rs::inflateInit2_(s.p(), 31, Rs::zlibVersion(), STREAM_SIZE) != Z_OK {
                return Err("init".into());
            }
            if ci >= 4 {
                // a recycled stream: abandoned in the middle of a 300-byte stored block of another member, then reset
                let mut prior = vec![0x1f, 0x8b, 8, 0, 0, 0, 0, 0, 0, 3, 0x00, 0x2c, 0x01, 0xd3, 0xfe];
                prior.extend(std::iter::repeat(0x41).take(100));
                s.z.next_in = env.ain.put(&prior, env.at_end);
                s.z.avail_in = prior.len() as u32;
                s.z.next_out = env.aout.place(64, env.at_end);
                s.z.avail_out = 64;
                let _ = Rs::inflate(s.p(), Z_NO_FLUSH);
                if Rs::inflateReset(s.p()) != Z_OK {
                    Rs::inflateEnd(s.p());
                    return Err("inflateReset failed".into());
                }
            }
            let mut head = Box::new(zeroed_header());
            if let Some(n) = cap {
                head.extra = cap_arena[0].place(n, env.at_end);
                head.extra_max = n as u32;
                head.name = cap_arena[1].place(n, env.at_end);
                head.name_max = n as u32;
                head.comment = cap_arena[2].place(n, env.at_end);
                head.comm_max = n as u32;
            } else {
                head.extra_max = 100;
                head.name_max = 100;
                head.comm_max = 100;
            }
            Rs::inflateGetHeader(s.p(), &mut *head);
            let mut pos = 0;
            let mut calls = 0;
            loop {
                let take = 2.min(bytes.len() - pos);
                let room = expect + 16;
                s.z.next_in = env.ain.put(&bytes[pos..pos + take], env.at_end);
                s.z.avail_in = take as u32;
                s.z.next_out = env.aout.place(room, env.at_end);
                s.z.avail_out = room as u32;
                c.exec();
                let r = Rs::inflate(s.p(), Z_NO_FLUSH);
                calls += 1;
                let din = take - s.z.avail_in as usize;
                pos += din;
                if r != Z_OK && r != Z_BUF_ERROR {
                    break;
                }
                if pos == bytes.len() && din == 0 {
                    break;
                }
                if calls > bytes.len() + 258 * 8 * bytes.len() / (expect + 16) + 1000 {
                    Rs::inflateEnd(s.p());
                    return Err("inflate with header capture does not terminate".into());
                }
            }
            if !(-1..=1).contains(&head.done) {
                Rs::inflateEnd(s.p());
                return Err(format!("head.done = {}", head.done));
            }
            Rs::inflateEnd(s.p());
        }
    }
    Ok(())
}

pub fn run(ctx: &mut Ctx) {
    let quick = ctx.quick();
    let mut env_end = Env::new();
    env_end.guarded_alloc = Some(0xA5);
    let mut env_start = Env::new();
    env_start.at_end = false;
    env_start.guarded_alloc = Some(0x5A);
    let caps = [Arena::new(4096), Arena::new(4096), Arena::new(4096)];
    let corp = zfam::corpus(quick);
    let thresholds: Vec<ISched> = {
        let mut v = vec![];
        for i in [14usize, 15, 16] {
            for r in [259usize, 260, 261] {
                v.push(ISched { steps: vec![IStep { n: i, room: r, flush: Z_NO_FLUSH }], tail_in: AMPLE, tail_room: AMPLE, tail_flush: Z_NO_FLUSH });
            }
        }
        v
    };
    zfam::for_each(ctx, &corp, quick, true, |ctx, it| {
        let expect = it.gen.expected.as_ref().map_or(300, |e| e.len());
        let full = !quick || it.mut_idx % 3 == 0;
        ctx.case(
            "corpus",
            || it.desc(),
            |c| {
                let ex = IExtra { probe: true, expect_out: expect, ..Default::default() };
                c.exec();
                let t = run_inflate::<Rs>(it.wb, it.bytes, &ISched::one_shot(), &env_end, &ex, Some(c))?;
                c.outcome(t.outcome_hash());
                if it.mut_idx != 0 {
                    c.nontrivial();
                }
                if full {
                    let long = it.bytes.len() > 300;
                    let mut scheds = vec![ISched { steps: vec![IStep { n: AMPLE, room: 0, flush: Z_NO_FLUSH }], tail_in: AMPLE, tail_room: AMPLE, tail_flush: Z_NO_FLUSH }];
                    if !long {
                        scheds.push(ISched::uniform(1, AMPLE, Z_NO_FLUSH));
                        scheds.push(ISched::uniform(AMPLE, 1, Z_NO_FLUSH));
                        scheds.push(ISched::uniform(AMPLE, AMPLE, Z_FINISH));
                    } else {
                        scheds.push(ISched::uniform(4093, 32769, Z_NO_FLUSH));
                        scheds.push(ISched::uniform(AMPLE, 263, Z_NO_FLUSH));
                    }
                    if it.bytes.len() >= 14 {
                        scheds.extend(thresholds.iter().cloned());
                    }
                    for s in &scheds {
                        for env in [&env_end, &env_start] {
                            c.exec();
                            run_inflate::<Rs>(it.wb, it.bytes, s, env, &ex, Some(c)).map_err(|e| format!("{e} (schedule [{}], {} placement)", s.desc(), if env.at_end { "end" } else { "start" }))?;
                        }
                    }
                    // every position of the end of the output room (guard page right behind it): copies that round
                    // their length up, or are cut short by avail_out, at every offset
                    let on = t.out.len();
                    if it.mut_idx == 0 && (2..=700).contains(&on) {
                        for r in 1..on {
                            c.exec();
                            let s = ISched { steps: vec![IStep { n: AMPLE, room: r, flush: Z_NO_FLUSH }], tail_in: AMPLE, tail_room: AMPLE, tail_flush: Z_NO_FLUSH };
                            run_inflate::<Rs>(it.wb, it.bytes, &s, &env_end, &ex, Some(c)).map_err(|e| format!("{e} (schedule [{}], end placement)", s.desc()))?;
                            if r >= 4 && r <= 300 {
                                c.exec();
                                let s = ISched::uniform(AMPLE, r, Z_NO_FLUSH);
                                run_inflate::<Rs>(it.wb, it.bytes, &s, &env_end, &ex, Some(c)).map_err(|e| format!("{e} (schedule [{}], end placement)", s.desc()))?;
                            }
                        }
                        c.count("output_cut_positions", (on - 1) as u64);
                    }
                    c.exec();
                    run_inflate::<Rs>(it.wb, it.bytes, &ISched::one_shot(), &env_start, &ex, Some(c))?;
                    if it.kind == WrapKind::Zlib && it.wb == 15 && it.bytes.len() <= 300 {
                        one_shot_helpers(c, &env_end, it.bytes, expect)?;
                        one_shot_helpers(c, &env_start, it.bytes, expect)?;
                    }
                    if it.bytes.len() <= 300 {
                        rust_api(c, &env_end, it.wb, it.bytes, expect)?;
                    }
                    if it.kind == WrapKind::Gzip && it.wb == 31 && it.bytes.len() <= 300 {
                        header_capture(c, &env_end, &caps, it.bytes, expect)?;
                    }
                }
                c.validated();
                Ok(())
            },
        );
    });
    // inflateBack on every raw string of the corpus (the property names it): safety only - no signal or panic,
    // documented status, callbacks handed memory inside the caller's window (the window and the input slices lie
    // against guard pages) - with the input in one slice and in 1-byte slices; C19 compares the results
    {
        let benv = crate::checks::c19::BackEnv { win: Arena::new(1 << 15), ain: Arena::new(1 << 20) };
        zfam::for_each(ctx, &corp, quick, false, |ctx, it| {
            if it.kind != WrapKind::Raw || (quick && it.mut_idx % 3 != 0) {
                return;
            }
            ctx.case(
                "inflate-back",
                || format!("{} inflateBack windowBits 8/9/10/15, one slice and 1-byte slices", it.desc()),
                |c| {
                    for wbits in [8, 9, 10, 15] {
                        for at_end in [true, false] {
                            c.exec();
                            crate::checks::c19::run_back::<Rs>(wbits, it.bytes, &[], false, usize::MAX, &benv, at_end).map_err(|e| format!("windowBits {wbits}: {e}"))?;
                        }
                        if it.bytes.len() <= 300 {
                            c.exec();
                            let ones = vec![1usize; it.bytes.len()];
                            crate::checks::c19::run_back::<Rs>(wbits, it.bytes, &ones, true, usize::MAX, &benv, true).map_err(|e| format!("windowBits {wbits}, 1-byte slices: {e}"))?;
                        }
                    }
                    c.validated();
                    Ok(())
                },
            );
        });
    }
    // a decoder whose bit buffer was filled with inflatePrime as far as the library lets the caller (0..=5 calls of 16
    // bits; the refusal of the one too many is C16's business): whatever the stream, the next inflate - on the fast path
    // (>= 15 input bytes, >= 260 bytes of room) or not - or inflateSync returns with a documented status
    for (gi, g) in corp.gens.iter().enumerate() {
        if g.light && gi % 16 != 0 {
            continue;
        }
        for primes in 0..=5usize {
            for value in [0i32, 0xffff, 0x1234] {
                ctx.case(
                    "primed-decoder",
                    || format!("raw stream[{}] inflateInit2(-15) ; {primes} x inflatePrime(16, {value:#x}) ; then inflate (ample room / 261-byte rooms / 1-byte rooms) or inflateSync + inflate", g.name),
                    |c| unsafe {
                        for follow in 0..4 {
                            c.exec();
                            let mut st = Strm::guarded(0x3C);
                            if Rs::inflateInit2_(st.p(), -15, Rs::zlibVersion(), STREAM_SIZE) != Z_OK {
                                return Err("init".into());
                            }
                            for k in 0..primes {
                                let r = Rs::inflatePrime(st.p(), 16, value);
                                if r != Z_OK && r != Z_STREAM_ERROR {
                                    Rs::inflateEnd(st.p());
                                    return Err(format!("inflatePrime call {k} returned undocumented {}", rc_name(r)));
                                }
                            }
                            let pin = env_end.ain.put(&g.raw, true);
                            st.z.next_in = pin;
                            st.z.avail_in = g.raw.len() as u32;
                            let mut sync_failed = false;
                            if follow == 3 {
                                let r = Rs::inflateSync(st.p());
                                sync_failed = r != Z_OK;
                                if !matches!(r, Z_OK | Z_DATA_ERROR | Z_BUF_ERROR | Z_STREAM_ERROR) {
                                    Rs::inflateEnd(st.p());
                                    return Err(format!("inflateSync returned undocumented {}", rc_name(r)));
                                }
                            }
                            let room = [1usize << 17, 261, 1, 1 << 17][follow];
                            let mut calls = 0usize;
                            loop {
                                let pout = env_end.aout.at_end(room);
                                st.z.next_out = pout;
                                st.z.avail_out = room as u32;
                                let before = (st.z.avail_in, st.z.total_out);
                                let r = Rs::inflate(st.p(), Z_NO_FLUSH);
                                calls += 1;
                                let used = (st.z.next_in as usize).wrapping_sub(pin as usize);
                                let made = (st.z.next_out as usize).wrapping_sub(pout as usize);
                                if used > g.raw.len() || made > room {
                                    Rs::inflateEnd(st.p());
                                    return Err(format!("cursors left their buffers: {used} of {} consumed, {made} of {room} produced", g.raw.len()));
                                }
                                // (a decoder left searching for a sync point answers Z_STREAM_ERROR to inflate, as zlib's does)
                                if !matches!(r, Z_OK | Z_STREAM_END | Z_BUF_ERROR | Z_DATA_ERROR | Z_NEED_DICT | Z_MEM_ERROR) && !(sync_failed && r == Z_STREAM_ERROR) {
                                    Rs::inflateEnd(st.p());
                                    return Err(format!("inflate returned undocumented {}", rc_name(r)));
                                }
                                if r != Z_OK || (before.0 == st.z.avail_in && before.1 == st.z.total_out) || calls > 400_000 {
                                    if calls > 400_000 {
                                        Rs::inflateEnd(st.p());
                                        return Err("inflate does not come to an end".into());
                                    }
                                    break;
                                }
                            }
                            c.outcome(mix(st.z.total_out as u64, (primes * 4 + follow) as u64));
                            Rs::inflateEnd(st.p());
                        }
                        c.nontrivial();
                        c.validated();
                        Ok(())
                    },
                );
            }
        }
    }
    let n = if quick { 2 } else { 3 };
    let modes: &[i32] = if quick { &[-15, 15, 31, 47] } else { &[-15, -8, 15, 8, 0, 31, 24, 47, 32] };
    for s in zfam::short_strings(n) {
        for &wb in modes {
            ctx.case(
                "short-strings",
                || format!("bytes={} windowBits={wb}", hex(&s)),
                |c| {
                    let ex = IExtra { probe: true, ..Default::default() };
                    for env in [&env_end, &env_start] {
                        c.exec();
                        let t = run_inflate::<Rs>(wb, &s, &ISched::one_shot(), env, &ex, Some(c))?;
                        c.outcome(t.outcome_hash());
                        c.exec();
                        run_inflate::<Rs>(wb, &s, &ISched::uniform(1, 1, Z_SYNC_FLUSH), env, &ex, Some(c))?;
                    }
                    if wb == 15 {
                        one_shot_helpers(c, &env_end, &s, 8)?;
                    }
                    if wb == 31 {
                        header_capture(c, &env_end, &caps, &s, 8)?;
                    }
                    c.validated();
                    Ok(())
                },
            );
        }
    }
}
