#!/bin/bash
# try_seed_iso.sh <worktree-with-change-applied> <check>...: build the engine against a scratch worktree of /repo
# (path dependencies rewritten), run the named quick checks with all output redirected into the worktree
# (ZVERIF_ROOT), so that several seeded changes can be tried in parallel without touching /repo or /verif.
# The registered way (apply to /repo, ./check, revert: tools/try_seed.sh) gives the same verdicts; this is a faster screen.
wt="$1"; shift
e="$wt/vengine"; r="$wt/vroot"
rm -rf "$e" "$r"; mkdir -p "$e" "$r"
cp -r /verif/engine/src /verif/engine/Cargo.toml /verif/engine/Cargo.lock /verif/engine/build.rs "$e/" 2>/dev/null
mkdir -p "$e/.cargo"; cp /verif/engine/.cargo/config.toml "$e/.cargo/"
sed -i "s#/repo/#$wt/#g" "$e/Cargo.toml"
cp /verif/known_findings.json "$r/"
cd "$e" || exit 2
if ! RUSTFLAGS="--cfg zlib_rs_verif" CARGO_TARGET_DIR="$wt/vtarget" cargo build --release --offline > "$wt/vbuild.log" 2>&1; then
  echo "BUILD FAILED"; tail -20 "$wt/vbuild.log"; exit 2
fi
for c in "$@"; do
  t0=$(date +%s)
  out=$(ZVERIF_ROOT="$r" ZVERIF_JOBS="${ZVERIF_JOBS:-6}" "$wt/vtarget/release/zverif" run "$c" quick 2>&1); rc=$?
  echo "--- $c: exit $rc ($(( $(date +%s) - t0 ))s)"
  echo "$out" | grep -E "^VIOLATION|^  observed|^  case|MACHINERY|quick:" | head -7 | cut -c1-400
done
