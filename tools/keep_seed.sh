#!/bin/bash
# keep_seed.sh <worktree> <dest-name> <property> "<needs>" <detecting checks...>: store a confirmed seeded change
# under /verif/seeded/<dest-name>/ with meta.json (run after verify_seed.sh and try_seed.sh confirmed it).
wt="$1"; name="$2"; prop="$3"; needs="$4"; shift 4
d=/verif/seeded/$name; mkdir -p "$d"
cp "$wt/out/patch.diff" "$d/patch.diff"
cp "$wt/out/seed_demo.rs" "$d/seed_demo.rs"
[ -f "$wt/out/README.md" ] && cp "$wt/out/README.md" "$d/README.agent.md"
[ -f "$wt/out/verify.log" ] && cp "$wt/out/verify.log" "$d/verify.log"
base=$(git -C "$wt" rev-parse HEAD)
checks=$(printf '%s\n' "$@" | jq -R . | jq -s .)
note="${SEED_ROUND_NOTE:-second round, asked to avoid the file and function of the first seed}"
jq -n --arg note "$note" --arg p "$prop" --arg n "$needs" --arg b "$base" --arg name "$name" --argjson c "$checks" '{
 breaks_property:$p,
 origin:("written by an independent sub-agent that saw only the property text and a scratch worktree of /repo (nothing from /verif); "+$note),
 needs_to_manifest:$n,
 files:{patch:("patch.diff (apply with: git -C /repo apply /verif/seeded/"+$name+"/patch.diff ; undo with: git -C /repo checkout -- .)"),demonstration:"seed_demo.rs (an integration test for test-libz-rs-sys/tests/)",agent_notes:"README.agent.md",confirmation_log:"verify.log"},
 confirmed_by_me:{how:"tools/verify_seed.sh in the scratch worktree: demonstration with the change fails, without the change passes, pinned suite with the change (demo moved away) 353/353 passed",pinned_suite_with_change:"353 passed",demo_with_change_fails:true,demo_without_change_passes:true},
 detected_by_quick_checks:$c,
 base_commit_of_patch:$b}' > "$d/meta.json"
echo "kept $d"
