#!/bin/bash
# run_seeded.sh [id...]: apply each seeded change of /verif/seeded to /repo, run the quick checks listed in its
# meta.json (detected_by_quick_checks), undo the change. Prints one line per (seed, check).
cd /verif || exit 2
# trial runs write their evidence/replays to a scratch root, never to /verif/evidence
export ZVERIF_ROOT=$(mktemp -d /tmp/try-root.XXXXXX); cp /verif/known_findings.json "$ZVERIF_ROOT/"
trap 'rm -rf "$ZVERIF_ROOT"' EXIT
ids="$@"; [ -z "$ids" ] && ids=$(ls seeded)
for id in $ids; do
  checks=$(python3 -c "import json;print(' '.join(json.load(open('/verif/seeded/$id/meta.json'))['detected_by_quick_checks']))")
  git -C /repo diff --quiet || { echo "/repo not clean"; exit 2; }
  git -C /repo apply "/verif/seeded/$id/patch.diff" || { echo "seed $id: patch does not apply"; continue; }
  for c in $checks; do
    t0=$(date +%s); out=$(./check "$c" quick 2>&1); rc=$?
    first=$(echo "$out" | grep -m1 "observed:" | cut -c1-160)
    echo "seed=$id check=$c exit=$rc secs=$(( $(date +%s) - t0 )) $first"
  done
  git -C /repo checkout -- .
done
# rebuild the engine against the clean tree, so that /verif/target never keeps a binary built from a changed /repo
(cd /verif && ./check build > /dev/null 2>&1)
