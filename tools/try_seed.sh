#!/bin/bash
# try_seed.sh <patch> <check>...: apply a seeded change to /repo, run the named quick checks, revert.
# Evidence and replay files of these trial runs go to a scratch root (ZVERIF_ROOT), never to /verif/evidence.
patch="$1"; shift
cd /repo || exit 2
export ZVERIF_ROOT=$(mktemp -d /tmp/try-root.XXXXXX); cp /verif/known_findings.json "$ZVERIF_ROOT/"
git diff --quiet || { echo "/repo working tree not clean"; exit 2; }
git apply "$patch" || { echo "patch does not apply"; exit 2; }
for c in "$@"; do
  t0=$(date +%s)
  out=$(cd /verif && ./check "$c" quick 2>&1)
  rc=$?
  echo "--- $c: exit $rc ($(( $(date +%s) - t0 ))s)"
  echo "$out" | grep -E "^VIOLATION|^  observed|^  case|MACHINERY|quick:" | head -7 | cut -c1-400
done
git checkout -- . && git status --short | head -3
rm -rf "$ZVERIF_ROOT"
# rebuild the engine against the clean tree, so that /verif/target never keeps a binary built from a changed /repo
(cd /verif && ./check build > /dev/null 2>&1)
