#!/bin/bash
# verify_seed.sh <id>: confirm in the scratch worktree /tmp/seed-<id> that the seeded change
# (a) keeps the pinned suite green, (b) makes the demonstration fail, (c) the demonstration passes without it.
id="$1"; wt="/tmp/seed-$id"; out="$wt/out/verify.log"
cd "$wt" || exit 2
export CARGO_TARGET_DIR="$wt/target"
{
  echo "== diff stat"; git diff --stat
  demo=test-libz-rs-sys/tests/seed_demo.rs
  echo "== demo WITH change (expect failure)"
  cargo nextest run -p test-libz-rs-sys --test seed_demo --no-fail-fast --offline 2>&1 | tail -4
  echo "== demo WITHOUT change (expect pass)"
  git stash push -q -- zlib-rs libz-rs-sys
  cargo nextest run -p test-libz-rs-sys --test seed_demo --no-fail-fast --offline 2>&1 | tail -3
  git stash pop -q
  echo "== pinned suite WITH change, demo moved away (expect 353 passed)"
  mv "$demo" /tmp/seed_demo_$id.rs
  cargo nextest run --workspace --no-fail-fast --offline 2>&1 | tail -3
  mv /tmp/seed_demo_$id.rs "$demo"
  echo "== done"
} > "$out" 2>&1
tail -30 "$out"
