#!/bin/bash
# verify_seed.sh <id> [worktree]: confirm in the scratch worktree (default /tmp/seed-<id>) that the seeded change
# out/patch.diff (a) keeps the pinned suite green, (b) makes the demonstration fail, (c) the demonstration passes
# without it. The library sources are reset to HEAD and the patch applied / reversed with git apply (never git stash:
# refs/stash is shared between the worktrees of one repository).
id="$1"; wt="${2:-/tmp/seed-$id}"; out="$wt/out/verify.log"
cd "$wt" || exit 2
export CARGO_TARGET_DIR="$wt/target"
{
  git checkout -- zlib-rs libz-rs-sys
  git apply out/patch.diff || { echo "PATCH DOES NOT APPLY"; exit 2; }
  echo "== diff stat"; git diff --stat
  demo=test-libz-rs-sys/tests/seed_demo.rs
  cp out/seed_demo.rs $demo
  echo "== demo WITH change (expect failure)"
  cargo nextest run -p test-libz-rs-sys --test seed_demo --no-fail-fast --offline 2>&1 | tail -4
  echo "== demo WITHOUT change (expect pass)"
  git apply -R out/patch.diff
  git diff --stat -- zlib-rs libz-rs-sys
  cargo nextest run -p test-libz-rs-sys --test seed_demo --no-fail-fast --offline 2>&1 | tail -3
  git apply out/patch.diff
  echo "== pinned suite WITH change, demo moved away (expect 353 passed)"
  mv "$demo" /tmp/seed_demo_$id.rs
  cargo nextest run --workspace --no-fail-fast --offline 2>&1 | tail -3
  mv /tmp/seed_demo_$id.rs "$demo"
  echo "== done"
} > "$out" 2>&1
tail -30 "$out"
