#!/usr/bin/env python3
"""Regenerates /verif/MANIFEST.json from the table below and validates it against the schema."""
import json, subprocess, sys

TECH = "bounded exhaustive enumeration (stateless explicit-state exploration of the real code) against a reference model"

# property -> (category, text, note, technique)
CHECKS = {
 "C09": ("model_checking",
  "Bounded exhaustive enumeration of the real checksum code: every length up to the bound x 64 alignments x start values x data patterns x run-time/compile-time selected implementation variant, all 1-/2-byte strings, every splitting position, every (|A|,|B|) pair for combine; each result compared with the definitional reference model R1.",
  "Trusted: R1 (bitwise CRC-32 / per-byte-modulo Adler-32, self-tested against published check values); the H1 CPU mask hook. Not covered: non-x86 variants, lengths beyond the bound.",
  "bounded exhaustive enumeration of inputs/alignments/variants against a definitional reference model"),
}

NOT_YET = "check under construction in this session (engine is being built property by property); not claimed yet"

def main():
    props = [json.loads(l) for l in open('/verif/properties.jsonl')]
    hooks = subprocess.run(["git", "-C", "/repo", "log", "--format=%H %s"], capture_output=True, text=True).stdout.splitlines()
    hook_commits = [l.split()[0] for l in hooks if " verif hook" in l]
    checks = []
    for pid in sorted(CHECKS):
        cat, text, note, tech = CHECKS[pid]
        checks.append({
            "property_id": pid,
            "quick_cmd": f"./check {pid} quick",
            "thorough_cmd": f"./check {pid} thorough",
            "evidence_file": f"/verif/evidence/{pid}.json",
            "replay_cmd_template": "./check replay {path}",
            "engine": "zverif",
            "level_claimed": {"category": cat, "text": text, "design_ref": f"DESIGN.md §6 {pid}"},
            "level_note": note,
            "technique": tech,
        })
    na = [{"property_id": p["id"], "reason": NOT_YET} for p in props if p["id"] not in CHECKS]
    m = {
        "version": 1,
        "setup_cmd": "./check build",
        "hooks": {
            "guard": "--cfg zlib_rs_verif",
            "enable": "RUSTFLAGS=\"--cfg zlib_rs_verif\" (set by /verif/check for the engine build, which compiles /repo/zlib-rs and /repo/libz-rs-sys as path dependencies)",
            "baseline_off_cmd": "cd /repo && (cargo nextest run --workspace --no-fail-fast --offline || cargo test --workspace --no-fail-fast --offline)",
            "source_commits": hook_commits,
            "add_only": True,
        },
        "engines": [{
            "name": "zverif", "path": "/verif/engine", "serves_properties": sorted(CHECKS),
            "kind_free_text": "Rust; stateless bounded-exhaustive explorer over the real code (worker subprocesses with crash attribution), reference models R1-R5, zlib-ng lock-step twin, guard-paged buffers and allocators, fault enumeration, controlled scheduler",
        }],
        "checks": checks,
        "not_applicable": na,
        "notes": "See DESIGN.md. Exit codes: 0 held, 1 violation (VIOLATION line), >=2 machinery failure.",
    }
    json.dump(m, open('/verif/MANIFEST.json', 'w'), indent=1)
    try:
        import jsonschema
        jsonschema.validate(m, json.load(open('/root/.vp/MANIFEST.schema.json')))
        print("MANIFEST.json valid;", len(checks), "checks,", len(na), "not yet claimed")
    except ImportError:
        print("jsonschema not available; not validated")

if __name__ == "__main__":
    main()
