#!/usr/bin/env python3
"""Regenerates /verif/MANIFEST.json from the table below and validates it against the schema."""
import json, subprocess, sys

TECH = "bounded exhaustive enumeration (stateless explicit-state exploration of the real code) against a reference model"

# property -> (category, text, note, technique)
CHECKS = {
 "C17": ("model_checking",
  "Explicit enumeration of ALL gz operation sequences up to depth 3 (4): read side over 19 operations on 16 files (members, member boundary at every offset of an 8-byte buffer, garbage suffix, plain, empty, truncated, header fields) x 4 buffer sizes; write side over 14-17 operations x 4 modes (w, w9h, wT, a) x 2 buffer sizes. Oracles: the logical-stream reference model R5 (bytes, return values, gztell) on well-formed files, R2+R3 decoding of the written file to exactly the logical stream, reading it back, and the same sequence on zlib-ng's gz layer compared call by call. Fresh heap memory is garbage-filled during gz runs so that reads of uninitialised memory are deterministic.",
  "Trusted: R5/R2/R3; zlib-ng's gz layer as tie-breaker (model/implementation disagreements where zlib-ng sides with zlib-rs are counted as model_divergence, currently 0). gzprintf and deeper sequences are not covered.",
  "explicit enumeration of operation sequences against a reference model and lock-step against the reference implementation"),
 "C07": ("model_checking",
  "Bounded exhaustive enumeration of (all 9450 configurations x boundary input lengths x worst-case patterns) plus edge configurations at 64 KiB / 200 KB, all strings over 4 symbols up to length 4 (6), gzip header lattices and preset dictionaries: deflateBound is queried on the configured stream, the output buffer has exactly that size with a guard page behind it, and one deflate(Z_FINISH) must return Z_STREAM_END. compress/compress2/compress_slice into compressBound likewise.",
  "The bound is a claim over all inputs of a length; the patterns are the known worst cases (incompressible, flat, 9-bit literals, alternating). Known finding F5 (exact fit on raw streams returns Z_OK) is tolerated only where zlib-ng, run on the same parameters, input and buffer size, answers Z_OK too; it is reported as KNOWN-FINDING.",
  TECH),
 "C10": ("model_checking",
  "Twin executions over the shared families: every CPU-feature mask (hook H1), allocator and output-buffer garbage, buffer misalignment, default allocator, reuse after reset with a different earlier history (compressor: two histories then the same payload; decoder: 30 earlier histories, then every short corpus stream incl. invalid ones reaching before their own start, against a fresh decoder) - all compared call by call with the reference execution; threads: a controlled scheduler (baton, sequentially consistent) runs 2-3 real threads with scheduling points at API call boundaries and at the library's CPU-feature probes and enumerates all schedules with at most 2 (3) preemptions (iterative preemption bounding: every schedule with k preemptions is run before any with k+1, so a cap leaves a completed bound, which the evidence reports per thread set), each thread compared with its solo run.",
  "Trusted: hooks H1/H1b (mask, probe hook, cache reset). Not covered: plain-memory data races that no instrumented serialisation exposes (no race detector pass), AVX-512/NEON variants. A schedule cap is reported in the evidence when hit.",
  "twin differential executions + exhaustive preemption-bounded schedule enumeration under a controlled scheduler"),
 "C11": ("model_checking",
  "Bounded exhaustive enumeration of (input x configuration x flush kind x flush position x variant): every position of every string over 3 symbols up to length 6 (7) and lattice/every position of boundary-forcing shapes; at each completed flush the reference decoder R2, given only the bytes emitted so far, must reproduce exactly the input supplied so far, sync/full flushes must be byte aligned and end in 00 00 FF FF, and the data after a full flush must decode as an independent stream with empty history.",
  "Trusted: R2. Positions/configurations outside the families are not covered.",
  TECH),
 "C15": ("model_checking",
  "Invariant monitor on every call of every execution of the shared families incl. the every-length x every-bit-alignment sweep (cursor/avail/total accounting; Z_BUF_ERROR rule with a model of zlib's flush ranking: a call without input whose flush ranks above the previous call's must not answer Z_BUF_ERROR when it has room - all ordered pairs of flush kinds are scheduled), decode under three schedules with 0..3 trailing garbage bytes (consumed == stream length), the same chunkings through the Rust wrappers (whose one-call output must equal the C API's and whose totals must not count a preset dictionary), one-shot helper lengths, and explicit enumeration to depth 4 (5) of inflate programs with inflateSync/prime/validate with totals compared with the sums after every call.",
  "Totals after Z_NEED_DICT are not judged (zlib is self-inconsistent there).",
  TECH),
 "C18": ("fault_enumeration",
  "Fault enumeration over ~70 C-API call histories (init/calls/end, copies mid-stream, reset/params/dictionary, several streams sharing one allocator, inflateBack) and the gz layer (every history of <= 2 (3) operations over 10 read / 9 write operations x 7 file contents - gzip, plain, empty, one byte, two members, trailing garbage, truncated - / 4 open modes x {fd, path}): each is run once to count its N allocation requests and then once for every k with only request k failing and once for every k with all requests from k failing. Guard-paged allocator with freed blocks unmapped (use-after-free faults), byte-balanced global allocator for gz. Oracle: the faulted call reports Z_MEM_ERROR / NULL / error (gz: through its return value or gzerror), End on the faulted stream is safe and releases nothing foreign, re-initialisation works, everything is released exactly once, a bystander stream is unaffected.",
  "Trusted: the harness allocators. Histories outside the enumerated set and independent double faults other than fail-from-k are not covered.",
  "exhaustive single-fault and fail-from-k enumeration over a fixed set of call histories"),
 "C14": ("model_checking",
  "Explicit enumeration of (prefix program up to depth 2 (3), branching point, suffix program up to depth 2) on compression (7 configurations incl. copy mid-gzip-header) and decompression (5 data sets incl. after an error, mid-header, inside a partially copied match): at the branching point the stream is duplicated and the suffix is run on both streams in alternation / with the original ended first / with the copy ended first, freed allocations being unmapped so that any sharing faults; every call's observables must equal those of the uncopied program. Likewise prefix ; reset ; suffix against a freshly initialised stream with the same parameters (C API and Rust reset methods); a decoder reset after each of 30 earlier histories is given every short corpus stream (valid and invalid) and compared with a fresh decoder.",
  "Trusted: the harness. Parameters that zlib keeps across a reset (level/strategy set by deflateParams, inflateValidate) are applied to the fresh stream too; the adler field of raw inflate streams is not compared.",
  "explicit enumeration of branching call histories, differential against the unbranched execution"),
 "C16": ("model_checking",
  "Explicit enumeration of ALL programs up to depth 3 (4-6 on reduced alphabets) over the exported compression and decompression entry points with small argument domains incl. out-of-range values, executed in lock-step on libz-rs-sys and zlib-ng 2.3.3; after every call the return code, input consumed and output bytes must be equal, and the process must never terminate. One-shot helpers and NULL-argument calls on lattices; an init-argument matrix ({NULL, valid stream} x 5 version strings x 5 stream_size values x legal/illegal arguments for the five *Init_ entry points); gzip headers (deflateSetHeader) and capture buffers (inflateGetHeader) replaced while a field is partly written (findings D20, D21). The reference runs first in a forked child for programs on which it has C-level UB (pre-screen).",
  "Trusted: zlib-ng 2.3.3 as oracle where it is self-consistent. Not compared, as the property lists: totals after a dictionary request, inflateMark, dictionary length, message texts; additionally inflateUndermine's own status, deflatePending/deflateBound values, deflatePrime while output is pending (the reference scrambles its own stream), inflateValidate toggled across a gzip header (reference rejects valid streams), deflateSetHeader after the first deflate call (reference reads past the replaced field; only 'never terminates' is judged), programs on which zlib-ng disagrees with itself under differently filled allocations (it decodes through a window it never wrote). Known finding F3 (deflatePrime bits 33..64) is reported as KNOWN-FINDING.",
  "explicit enumeration of API programs up to a depth bound, lock-step conformance against the reference implementation"),
 "C06": ("model_checking",
  "Explicit enumeration of ALL call sequences up to depth 3 (4) over a 47-operation alphabet of the compression API (deflate with every flush value and boundary buffer sizes, params, tune, prime, dictionary, header, pending, bound, reset, reset-keep, copy, get-dictionary, end) on a lattice of configurations incl. illegal ones, each finished by the Finish tail; the same through the safe Rust wrappers under catch_unwind; long repetitions of single operations; C01's schedule families re-run with guard pages in both placements. Oracle: no signal/panic, documented status, cursors in bounds, hook-H3 structural invariants after every call, Finish reaches stream end within the call cap.",
  "Trusted: hook H3 (read-only). deflatePrime and deflateSetHeader are only issued before the first deflate call (their documented precondition; C16 covers the misuse). Known finding F2 (deflateResetKeep with unconsumed lookahead, shared with zlib-ng) is reported as KNOWN-FINDING.",
  "explicit enumeration of operation sequences up to a depth bound over the real code, invariant checking"),
 "C19": ("model_checking",
  "Raw corpus streams with every truncation and bit flip and all short strings x windowBits 8..15 x input-callback slicings (all compositions for <= 9 bytes, every single split, 1-byte slices, end-of-input at every position) x output-callback abort at every index, window and slices in guard-paged arenas; safety on everything, and equality with inflate (bytes, verdict, unused input) wherever the strict reference decoder finds all back-references inside min(window, produced bytes).",
  "Trusted: R2. For references into the unwritten part of the caller's window only safety/termination are required.",
  TECH),
 "C02": ("model_checking",
  "Bounded exhaustive exploration of the decoder on untrusted bytes (incl. inflateBack on every raw string, every position of the output-room end for intact streams, a (literal, literal, longest match) triple at every output position 0..530 and around every window size): the whole R4 corpus with every truncation / single-bit flip / trailing garbage and all strings <= 2 (3) bytes, through streaming inflate under boundary schedules (0-/1-byte buffers, fast-path thresholds), uncompress/uncompress2, the Rust wrappers and header capture, every buffer in guard-paged arenas in both placements and state in a guard-paged garbage-filled allocator; a signal is attributed to the case by the explorer. Oracle: no crash/panic, documented status, cursors in bounds, bounded calls, progress.",
  "Trusted: the harness; guard pages see every access beyond a buffer end/start but not overruns inside one allocation smaller than the allocator slack. Not covered: multi-fault corruptions, strings outside the corpus.",
  TECH),
 "C03": ("model_checking",
  "Bounded exhaustive enumeration of byte strings (R4 corpus: all token programs <= 3 tokens, all complete codes on <= 5 symbols, extremes, faults, blocks using codes they do not define alone and after blocks with rich tables, long streams using every codeword length 1..15 in the fast loops; all wrappers; every truncation / bit flip / garbage suffix; all strings <= 2 (3) bytes) x all windowBits modes; verdict, output and consumed length compared with the reference decoder R2+R3, zlib-ng as tie-breaker.",
  "Trusted: R2/R3/R4 (self-tested against zlib-ng). Three-way disagreements where zlib-ng sides with zlib-rs are reported in the evidence as model_divergence (currently 0).",
  TECH),
 "C04": ("model_checking",
  "For every corpus stream (valid, invalid, truncated) the one-call run is the reference execution; all compositions of the input (<= 9/12 bytes), every single split, 1-byte pieces, boundary output rooms, EVERY position of the first output-buffer end and every uniform room 4..300 (intact streams <= 700 bytes out) and all five flush values (uniform and at one call) must reproduce its output, verdict and consumed length; three-phase schedules around a call that produces a whole window; three chunkings through zlib_rs::Inflate whose verdict, output and own totals must agree with each other and with the C API. Decoder resume states are observed through hook H2 and the run is rejected as vacuous unless every resumable mode was entered.",
  "Trusted: hook H2 (read-only), the harness. Not covered: more than one split on streams > 12 bytes, streams outside the corpus.",
  "bounded exhaustive enumeration of call schedules, differential against the one-call execution"),
 "C08": ("model_checking",
  "Histories (every sequence of <= 3 (4) operations over inflate shapes / inflateSync / inflateValidate / inflateReset / inflateReset2, then a reset and the stream again with each trailer byte damaged, judged by a one-flag model of 'checking enabled'); valid zlib/gzip streams (corpus + encoder-produced up to 200 KB) x all 255 alternative values of every header byte and of the last 12 bytes, every bit flip elsewhere (lattice on long streams) x schedules incl. 1-byte calls and 32767..32769-byte output rooms; whenever Z_STREAM_END is returned the consumed trailer must equal the R1 checksum/length of the bytes actually output and a FHCRC header must verify.",
  "Trusted: R1. Corruptions of fields the format does not protect (MTIME/XFL/OS/name without FHCRC) are accepted by design and counted separately.",
  TECH),
 "C01": ("model_checking",
  "Bounded exhaustive exploration of the real encoder+decoder: every (configuration x input x call schedule) of the tiny / shape / big / sweep families (sweep: every input length 0..1100 (2300) x 3 data kinds x 17 small configurations x 7 schedules, and every bit alignment of the stream end for every length; shape: incl. a maximal-distance match planted where the window first slides, skewed Fibonacci histograms forcing code-length limiting) (all strings over small alphabets, boundary-forcing inputs for 512-byte windows and 127-symbol blocks, > 2 windows at 32 KiB; every single deviation from the default schedule: split position, flush kind, output room, parameter change, plus selected double deviations). Every stream is decoded by zlib-rs under three schedules and by the independent reference decoder R2+R3 and compared with the input.",
  "Trusted: reference decoder R2/R3 (cross-validated against zlib-ng at start-up), the harness. Not covered: inputs/configs/schedules outside the families.",
  TECH),
 "C05": ("model_checking",
  "Same bounded exhaustive (configuration x input x schedule) families as C01 (tiny / shape / big / every-length and bit-alignment sweep); every emitted stream is checked by the strict reference: RFC 1950/1952 header and trailer rules (R3) and a strict RFC 1951 decode limited to the announced window (R2) that must reproduce the input.",
  "Trusted: R2 strict mode, R3. Not covered: streams for histories outside the families.",
  TECH),
 "C12": ("model_checking",
  "Same bounded exhaustive families as C01 plus the dictionary and gzip-header lattices, each history executed in lock-step on zlib-rs and on zlib-ng 2.3.3 linked into the same process; complete output streams must be byte-identical.",
  "Trusted: zlib-ng 2.3.3 (vendored by libz-sys 1.1.29, compat mode) as the reference the repository pins. Histories on which zlib-ng itself violates an API obligation are counted as not comparable.",
  "bounded exhaustive enumeration of call histories, lock-step conformance against the reference implementation"),
 "C13": ("model_checking",
  "Bounded exhaustive lattice of dictionary lengths (around 0, MIN_MATCH, window-262, window, 2*window, 3*window) x windowBits x level x memLevel x wrapper x input x schedule, plus dictionaries installed between blocks of raw streams; Get-dictionary after every call is compared with the history model R7, header FDICT/DICTID with R1/R3, and the NEED_DICT / accept / reject / too-early protocol and the round trip are checked on the real code.",
  "Trusted: R7 history model, R1-R3. Known finding F1 (stale window after the trailer-verifying call, zlib-compatible) is reported as KNOWN-FINDING.",
  TECH),
 "C20": ("model_checking",
  "Bounded exhaustive lattice of gzip header contents x memLevel (pending buffer smaller/larger than the header) x output rooms on the write side, parsed back by the reference R3; on the read side R3-built headers x input chunkings (one call, 1-byte pieces, every single split) x capture capacities {NULL,0,1,len-1,len,len+1} in guard-paged buffers, compared field by field with the R3 parse; every write-side row is also continued on a deflateCopy taken after the first / second call.",
  "Trusted: R3 (RFC 1952 writer/parser). Field lengths outside the lattice are not covered.",
  TECH),
 "C09": ("model_checking",
  "Bounded exhaustive enumeration of the real checksum code: every length up to the bound x 64 alignments x start values x data patterns x run-time/compile-time selected implementation variant, all 1-/2-byte strings, every splitting position, every (|A|,|B|) pair for combine; each result compared with the definitional reference model R1.",
  "Trusted: R1 (bitwise CRC-32 / per-byte-modulo Adler-32, self-tested against published check values); the H1 CPU mask hook. Not covered: non-x86 variants, lengths beyond the bound.",
  "bounded exhaustive enumeration of inputs/alignments/variants against a definitional reference model"),
}

NOT_YET = "check under construction in this session (engine is being built property by property); not claimed yet"

def main():
    props = [json.loads(l) for l in open('/verif/properties.jsonl')]
    hooks = subprocess.run(["git", "-C", "/repo", "log", "--format=%H %s"], capture_output=True, text=True).stdout.splitlines()
    hook_commits = [l.split()[0] for l in hooks if " verif hook" in l]
    checks = []
    for pid in sorted(CHECKS):
        cat, text, note, tech = CHECKS[pid]
        checks.append({
            "property_id": pid,
            "quick_cmd": f"./check {pid} quick",
            "thorough_cmd": f"./check {pid} thorough",
            "evidence_file": f"/verif/evidence/{pid}.json",
            "replay_cmd_template": "./check replay {path}",
            "engine": "zverif",
            "level_claimed": {"category": cat, "text": text, "design_ref": f"DESIGN.md §6 {pid}"},
            "level_note": note + (" Thorough tier, supplementary: the quick-tier enumeration is re-run in an AddressSanitizer build of the engine (intra-allocation overruns abort the worker and are attributed to the case); skipped with a note when no nightly toolchain is present." if pid in ("C02", "C06", "C14", "C16", "C19") else "") + " Thorough tier, supplementary: the quick-tier enumeration is re-run in a build with overflow checks and debug assertions (an arithmetic overflow or failed internal assertion aborts the worker and is attributed to the case). The families the final commit enumerates, their sizes and the completed thorough bounds are tabulated in DESIGN.md 11.9; 11.8 lists the 180 seeded changes and the families each one led to.",
            "technique": tech,
        })
    na = [{"property_id": p["id"], "reason": NOT_YET} for p in props if p["id"] not in CHECKS]
    m = {
        "version": 1,
        "setup_cmd": "./check build",
        "hooks": {
            "guard": "--cfg zlib_rs_verif",
            "enable": "RUSTFLAGS=\"--cfg zlib_rs_verif\" (set by /verif/check for the engine build, which compiles /repo/zlib-rs and /repo/libz-rs-sys as path dependencies)",
            "baseline_off_cmd": "cd /repo && (cargo nextest run --workspace --no-fail-fast --offline || cargo test --workspace --no-fail-fast --offline)",
            "source_commits": hook_commits,
            "add_only": True,
        },
        "engines": [{
            "name": "zverif", "path": "/verif/engine", "serves_properties": sorted(CHECKS),
            "kind_free_text": "Rust; stateless bounded-exhaustive explorer over the real code (worker subprocesses with crash attribution), reference models R1-R5, zlib-ng lock-step twin, guard-paged buffers and allocators, fault enumeration, controlled scheduler",
        }],
        "checks": checks,
        "not_applicable": na,
        "notes": "See DESIGN.md. Exit codes: 0 held, 1 violation (VIOLATION line), >=2 machinery failure.",
    }
    json.dump(m, open('/verif/MANIFEST.json', 'w'), indent=1)
    try:
        import jsonschema
        jsonschema.validate(m, json.load(open('/root/.vp/MANIFEST.schema.json')))
        print("MANIFEST.json valid;", len(checks), "checks,", len(na), "not yet claimed")
    except ImportError:
        print("jsonschema not available; not validated")

if __name__ == "__main__":
    main()
