#!/bin/bash
# retest_seed.sh <dir-with-patch.diff> <tag> <check>...: fresh scratch worktree of /repo HEAD, apply the seeded change,
# screen it against the named quick checks in isolation (try_seed_iso.sh), remove the worktree again.
src="$1"; tag="$2"; shift 2
wt=/tmp/rt-$tag
git -C /repo worktree remove --force "$wt" >/dev/null 2>&1
git -C /repo worktree add -q --detach "$wt" HEAD || exit 2
if ! git -C "$wt" apply "$src/patch.diff"; then echo "patch does not apply to HEAD"; git -C /repo worktree remove --force "$wt"; exit 2; fi
/verif/tools/try_seed_iso.sh "$wt" "$@"
git -C /repo worktree remove --force "$wt"
