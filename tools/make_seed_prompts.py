#!/usr/bin/env python3
"""make_seed_prompts.py <round> <areas.json>: write /tmp/prompt<round>-<id>.txt for every property from
tools/seed_prompt_template.txt (the complete instructions a seeding sub-agent gets: property text, its scratch worktree
/tmp/seed<round>-<id>, an assigned area of code, the confirmation procedure). The worktrees are created with
  git -C /repo worktree add -q --detach /tmp/seed<round>-<id> HEAD && mkdir -p /tmp/seed<round>-<id>/out
"""
import json, sys
rnd, areas = sys.argv[1], json.load(open(sys.argv[2]))
props = {json.loads(l)['id']: json.loads(l) for l in open('/verif/properties.jsonl')}
tmpl = open('/verif/tools/seed_prompt_template.txt').read()
for pid, p in props.items():
    wt = f'/tmp/seed{rnd}-{pid}'
    open(f'/tmp/prompt{rnd}-{pid}.txt', 'w').write(tmpl.format(wt=wt, pid=pid, title=p['title'], statement=p['statement'], quant=p['quantifier']['text'], area=areas[pid]))
print('ok')
