#!/bin/bash
# seed_pipeline.sh <worktree> <id> <check>...: confirm a seeded change in its scratch worktree (verify_seed.sh) and
# screen it against the named quick checks in isolation (try_seed_iso.sh). Log: <worktree>/out/pipeline.log
wt="$1"; id="$2"; shift 2
{
  /verif/tools/verify_seed.sh "$id" "$wt"
  echo "=== TRY"
  /verif/tools/try_seed_iso.sh "$wt" "$@"
  echo "=== END"
} > "$wt/out/pipeline.log" 2>&1
